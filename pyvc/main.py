"""./check <property> [--tier quick|thorough] [--replay FILE]

Decides one property: generates verification conditions from /repo's current source and the
sidecar contracts, discharges them, replays counterexamples on the real code, runs the bounded
stand-ins and static obligations registered for the property, writes evidence/<id>.json.

Exit codes: 0 held; 1 VIOLATION (printed); 3 checker fault (never reported as a violation).
"""
import argparse
import hashlib
import importlib
import json
import multiprocessing as mp
import os
import subprocess
import sys
import time
import traceback

HERE = os.path.dirname(os.path.dirname(os.path.abspath(__file__)))
sys.path.insert(0, HERE)
REPO = os.environ.get("VERIF_REPO", "/repo")
sys.path.insert(0, REPO)

import z3  # noqa: E402
from pyvc import backend, fixtures  # noqa: E402
from pyvc.lemma import LemmaEngine, load_lemmas  # noqa: E402
from pyvc.prims import OutOfSubset  # noqa: E402
from pyvc.source import Repo  # noqa: E402

ASSUMPTIONS_BASE = [
    "pyvc (this verifier: ast front end, symbolic interpreter, encodings) is trusted; guarded by the CPython cross-check, builtin-model conformance tests and seeded-mutant self-test",
    "z3 5.1.0 and cvc5 1.4.0 are trusted for `unsat` answers",
    "Python int is mathematical; float is treated as a real number (no rounding, NaN or infinities)",
    "str is an SMT-LIB Unicode string; str builtins follow the specifications in pyvc/prims.py (conformance-tested against CPython on every run)",
    "logging calls are effect-free and non-raising (their arguments are still evaluated)",
    "a single thread executes each verified function",
    "partial correctness only: termination is not proved",
]


def make_engine(repo_root=None):
    eng = LemmaEngine(repo=Repo(repo_root or REPO))
    fixtures.install(eng)
    from pyvc import models
    models.install(eng)
    eng.base_handlers = dict(eng.handlers)
    eng.opaque_models = dict(fixtures.OPAQUE_MODELS)
    eng.opaque_models.update(models.OPAQUE_MODELS)
    return eng


def _configs_for(spec):
    kind = spec.opts.get("configs", None)
    if kind is None:
        kind = "providers" if any(a == "Prov" for _, a in spec.params) else "none"
    if kind == "providers":
        return fixtures.PROVIDER_CONFIGS
    if kind == "none":
        return [None]
    return fixtures.CONFIG_SETS[kind]


def gen_task(task):
    """worker: symbolically execute one lemma under one configuration -> serialisable obligations"""
    path, lemma_name, cfg_index = task[:3]
    limit = task[3] if len(task) > 3 else 300
    if os.environ.get("VERIF_GEN_LIMIT"):
        limit = int(os.environ["VERIF_GEN_LIMIT"])
    task = tuple(task[:3])
    t0 = time.time()
    eng = None
    import signal
    try:

        def _alarm(sig, frm):
            raise OutOfSubset("verification-condition generation exceeded its time limit of %ds (path explosion)" % limit)
        signal.signal(signal.SIGALRM, _alarm)
        signal.alarm(int(limit))
        from pyvc import prims
        prims.reset_names()
        eng = make_engine()
        specs = [s for s in load_lemmas(eng.repo, os.path.join(HERE, path)) if s.name == lemma_name]
        spec = specs[0]
        cfg = _configs_for(spec)[cfg_index]
        n, paths = eng.run_lemma(spec, cfg)
        obs = []
        covers = {}
        for ob in eng.obligations:
            strs = backend.has_strings(ob.constraints, ob.goal)
            trivial = z3.is_true(z3.simplify(ob.goal))
            d = {"name": ob.name, "props": list(ob.props), "smt2": None if trivial else backend.to_smt2(ob.constraints, ob.goal),
                 "strs": strs, "inputs": ob.inputs, "kind": ob.kind, "lemma": ob.lemma,
                 "config": cfg["name"] if cfg else None, "file": path, "trivial": trivial,
                 "goal": str(ob.goal)[:300], "nconstraints": len(ob.constraints)}
            obs.append(d)
            if ob.kind == "check" and len(covers.setdefault(ob.name, [])) < 8:
                covers[ob.name].append(backend.to_smt2(ob.constraints, z3.BoolVal(False)))
        signal.alarm(0)
        return {"task": task, "ok": True, "obligations": obs, "covers": covers, "paths": paths,
                "functions": list(eng.repo.used.values()), "notes": sorted(eng.notes),
                "gen_s": time.time() - t0, "feas_checks": eng.stats["feas_checks"]}
    except OutOfSubset as e:
        signal.alarm(0)
        return {"task": task, "ok": False, "error": "out-of-subset: %s" % e, "gen_s": time.time() - t0,
                "trace": traceback.format_exc()[-1500:], "functions": list(eng.repo.used.values()) if eng else []}
    except Exception as e:
        signal.alarm(0)
        return {"task": task, "ok": False, "error": "%s: %s" % (type(e).__name__, e), "gen_s": time.time() - t0,
                "trace": traceback.format_exc()[-2500:], "functions": list(eng.repo.used.values()) if eng else []}


def solve_all(obs, timeout_s, both, jobs, seed):
    return backend.solve_smt(obs, timeout_s, both, jobs, seed)


def check_covers(covers, jobs, seed):
    """vacuity guard: the path condition in front of each check name must be satisfiable."""
    names = list(covers)
    result = {n: "unsat" for n in names}
    # try the recorded path conditions of each check name one after the other until one is satisfiable
    for attempt in range(8):
        tasks = []
        for i, n in enumerate(names):
            if result[n] != "sat" and attempt < len(covers[n]):
                tasks.append((i, covers[n][attempt], "z3", 3000, False, seed))
        if not tasks:
            break
        status = {}
        for idx, solver, st, dt, model in backend.run_tasks(tasks, jobs):
            status[idx] = st
        again = [(t[0], t[1], "cvc5", 10000, False, seed) for t in tasks if status.get(t[0]) not in ("sat", "unsat")]
        for idx, solver, st, dt, model in backend.run_tasks(again, jobs):
            status[idx] = st
        for idx, st in status.items():
            n = names[idx]
            if st == "sat":
                result[n] = "sat"
            elif st != "unsat" and result[n] != "sat":
                result[n] = "unknown"
    return result


def load_known_findings():
    p = os.path.join(HERE, "known_findings.json")
    if not os.path.exists(p):
        return []
    with open(p) as f:
        return json.load(f).get("findings", [])


def match_known(finding, prop, obname, witness):
    if finding.get("status") != "known" or finding.get("property") != prop:
        return False
    pat = finding.get("obligation", "")
    if pat and pat not in obname:
        return False
    pat2 = finding.get("obligation_check", "")
    if pat2 and pat2 not in obname:
        return False
    cond = finding.get("witness_pred")
    if cond:
        try:
            return bool(eval(cond, {"__builtins__": {"len": len, "any": any, "all": all, "str": str, "set": set, "isinstance": isinstance, "float": float, "int": int}}, dict(witness or {})))
        except Exception:
            return False
    return True


def main(argv=None):
    ap = argparse.ArgumentParser()
    ap.add_argument("prop")
    ap.add_argument("--tier", default=os.environ.get("VERIF_TIER", "quick"))
    ap.add_argument("--replay", default=None)
    ap.add_argument("--only", default=None, help="comma separated lemma names")
    ap.add_argument("--jobs", type=int, default=min(16, os.cpu_count() or 4))
    ap.add_argument("--configs", default=None, help="limit number of provider configurations (debug)")
    ap.add_argument("--no-evidence", action="store_true")
    ap.add_argument("--update-baseline", action="store_true")
    args = ap.parse_args(argv)
    seed = int(os.environ.get("VERIF_SEED", "0") or 0)
    tier = args.tier if args.tier in ("quick", "thorough") else "quick"
    t_start = time.time()

    from contracts import registry
    if args.prop not in registry.PROPS:
        print("CHECKER-ERROR: property %s has no registered check" % args.prop)
        return 3
    entry = registry.PROPS[args.prop]

    if args.replay:
        from pyvc import replay
        return replay.replay_file(args.replay)

    backend.start_pool(args.jobs)
    import atexit
    atexit.register(backend.stop_pool)
    from pyvc import report
    rep = report.Report(args.prop, tier, seed, entry)
    dbg = os.environ.get("VERIF_DEBUG")

    def lap(what):
        if dbg:
            print("[%.1fs] %s" % (time.time() - t_start, what), file=sys.stderr)

    # ---- 0. conformance of builtin / dependency models (guard 5.4)
    from pyvc import conformance
    conf = conformance.run(entry.get("conformance", ["str"]), tier, seed)
    rep.conformance = conf
    for c in conf["failures"]:
        rep.fault("model conformance failed: %s" % c)

    lap("conformance")
    # ---- 1. static obligations
    for name in entry.get("static", []):
        mod, fn = name.rsplit(".", 1)
        try:
            f = getattr(importlib.import_module(mod), fn)
            for res in f(REPO, tier):
                rep.add_static(res)
        except Exception as e:
            rep.fault("static check %s crashed: %s\n%s" % (name, e, traceback.format_exc()[-1500:]))

    # ---- 2. deductive obligations
    repo = Repo(REPO)
    tasks = []
    only = set(args.only.split(",")) if args.only else None
    for path in entry.get("lemma_files", []):
        for spec in load_lemmas(repo, os.path.join(HERE, path)):
            if args.prop not in spec.props:
                continue
            if only and spec.name not in only:
                continue
            if tier == "quick" and spec.opts.get("thorough_only"):
                continue
            cfgs = _configs_for(spec)
            idxs = list(range(len(cfgs)))
            if cfgs is fixtures.PROVIDER_CONFIGS and tier == "quick":
                idxs = list(fixtures.QUICK_PROVIDER_CONFIGS)
            if args.configs:
                idxs = idxs[:int(args.configs)]
            if os.environ.get("VERIF_CFG"):
                idxs = [int(x) for x in os.environ["VERIF_CFG"].split(",") if int(x) < len(cfgs)]
            for ci in idxs:
                tasks.append((path, spec.name, ci, 900 if tier == "quick" else 2400))
    gens = []
    if tasks:
        ctx = mp.get_context("fork")
        with ctx.Pool(min(args.jobs, len(tasks))) as pool:
            for g in pool.imap_unordered(gen_task, tasks, chunksize=1):
                gens.append(g)
    lap("generation (%d tasks)" % len(tasks))
    obs, covers = [], {}
    for g in gens:
        if not g["ok"]:
            rep.gen_error(g)
            continue
        rep.add_gen(g)
        obs.extend(g["obligations"])
        for n, lst in g["covers"].items():
            covers.setdefault(n, []).extend(lst)
    timeout_s = entry.get("timeout_s", {}).get(tier, 60 if tier == "quick" else 240)
    results = solve_all(obs, timeout_s, tier == "thorough" and entry.get("both_solvers", True), args.jobs, seed) if obs else []
    lap("solving (%d obligations)" % len(obs))
    cov = check_covers(covers, args.jobs, seed) if covers else {}
    lap("covers (%d)" % len(covers))
    rep.set_obligations(obs, results, cov)

    # ---- 3. replay of counterexamples on the real code
    from pyvc import replay
    known = load_known_findings()
    rep.resolve_failures(replay, known, match_known)

    # ---- 4. bounded stand-ins (labelled bounded, never counted as proved)
    for name in entry.get("bounded", []):
        mod, fn = name.rsplit(".", 1)
        try:
            f = getattr(importlib.import_module(mod), fn)
            rep.add_bounded(f(REPO, tier, seed), known, match_known)
        except Exception as e:
            rep.fault("bounded stand-in %s crashed: %s\n%s" % (name, e, traceback.format_exc()[-2000:]))

    rep.wall = time.time() - t_start
    code = rep.finish(write=not args.no_evidence, update_baseline=args.update_baseline)
    return code


if __name__ == "__main__":
    sys.exit(main())
