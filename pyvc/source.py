"""Locate and parse the real source of the code under contract.

Every run re-reads /repo's working tree (REPO env var overrides the location for the
mutation self-test, which runs against a scratch copy).  Nothing is cached on disk.
"""
import ast
import hashlib
import os

REPO = os.environ.get("VERIF_REPO", "/repo")


class ModuleInfo:
    def __init__(self, name, path):
        self.name = name
        self.path = path
        with open(path, "r", encoding="utf8") as f:
            self.text = f.read()
        self.tree = ast.parse(self.text, filename=path)
        self.functions = {}
        self.classes = {}
        self.assigns = {}
        self.imports = {}      # local name -> ("module", modname) | ("from", modname, attr)
        self.star_imports = []
        self.is_package = os.path.basename(path) == "__init__.py"
        self._scan(self.tree.body)

    def _pkg(self):
        return self.name if self.is_package else self.name.rpartition(".")[0]

    def _resolve_rel(self, module, level):
        if level == 0:
            return module
        base = self._pkg().split(".")
        if level > 1:
            base = base[: len(base) - (level - 1)]
        return ".".join(base + ([module] if module else []))

    def _scan(self, body):
        for node in body:
            if isinstance(node, (ast.FunctionDef, ast.AsyncFunctionDef)):
                self.functions[node.name] = node
            elif isinstance(node, ast.ClassDef):
                self.classes[node.name] = ClassInfo(self, node)
            elif isinstance(node, ast.Assign):
                for t in node.targets:
                    if isinstance(t, ast.Name):
                        self.assigns[t.id] = node.value
            elif isinstance(node, ast.AnnAssign):
                if isinstance(node.target, ast.Name) and node.value is not None:
                    self.assigns[node.target.id] = node.value
            elif isinstance(node, ast.Import):
                for a in node.names:
                    if a.asname:
                        self.imports[a.asname] = ("module", a.name)
                    else:
                        top = a.name.split(".")[0]
                        self.imports[top] = ("module", top)
            elif isinstance(node, ast.ImportFrom):
                mod = self._resolve_rel(node.module, node.level)
                for a in node.names:
                    if a.name == "*":
                        self.star_imports.append(mod)
                    else:
                        self.imports[a.asname or a.name] = ("from", mod, a.name)
            elif isinstance(node, (ast.If, ast.Try)):
                # if TYPE_CHECKING: / try: import ... -- scan conservatively
                for sub in getattr(node, "body", []):
                    if isinstance(sub, (ast.Import, ast.ImportFrom)):
                        self._scan([sub])


class ClassInfo:
    def __init__(self, module, node):
        self.module = module
        self.node = node
        self.name = node.name
        self.qualname = module.name + ":" + node.name
        self.methods = {}      # name -> FunctionDef (last definition wins, @overload skipped)
        self.attrs = {}        # name -> value AST
        self.attr_order = []
        self.decorators = [ast.unparse(d) for d in node.decorator_list]
        for item in node.body:
            if isinstance(item, (ast.FunctionDef, ast.AsyncFunctionDef)):
                decs = [ast.unparse(d) for d in item.decorator_list]
                if "overload" in decs:
                    continue
                if any(d.endswith(".setter") for d in decs):
                    self.methods[item.name + ".setter"] = item
                    continue
                self.methods[item.name] = item
            elif isinstance(item, ast.Assign):
                for t in item.targets:
                    if isinstance(t, ast.Name):
                        self.attrs[t.id] = item.value
                        self.attr_order.append(t.id)
            elif isinstance(item, ast.AnnAssign):
                if isinstance(item.target, ast.Name) and item.value is not None:
                    self.attrs[item.target.id] = item.value
                    self.attr_order.append(item.target.id)
        self.base_exprs = node.bases

    def __repr__(self):
        return "<class %s>" % self.qualname


class Repo:
    """Module table over the repository working tree."""

    def __init__(self, root=None):
        self.root = root or REPO
        self.modules = {}
        self.used = {}     # qualname -> (file, lineno, end_lineno, sha256)

    def module_path(self, name):
        rel = name.replace(".", "/")
        p = os.path.join(self.root, rel + ".py")
        if os.path.exists(p):
            return p
        p = os.path.join(self.root, rel, "__init__.py")
        if os.path.exists(p):
            return p
        return None

    def has_module(self, name):
        return name in self.modules or self.module_path(name) is not None

    def module(self, name):
        if name not in self.modules:
            p = self.module_path(name)
            if p is None:
                raise KeyError("no module %s under %s" % (name, self.root))
            self.modules[name] = ModuleInfo(name, p)
        return self.modules[name]

    def load_file(self, name, path):
        """Load a module from an explicit path (used for /verif contract files)."""
        if name not in self.modules:
            self.modules[name] = ModuleInfo(name, path)
        return self.modules[name]

    def note_use(self, module, node, qualname):
        if qualname in self.used:
            return
        seg = ast.get_source_segment(module.text, node) or ""
        self.used[qualname] = {
            "file": os.path.relpath(module.path, self.root) if module.path.startswith(self.root) else module.path,
            "qualname": qualname,
            "lines": [node.lineno, getattr(node, "end_lineno", node.lineno)],
            "sha256": hashlib.sha256(seg.encode("utf8")).hexdigest(),
        }
