"""Symbolic fixtures for the sync engine: providers as arbitrary implementations of the Provider
API (every call may return any well-typed result or raise any declared exception, and is logged
in the effect log), a SyncState whose index maintenance is replaced by contracts, and SyncEntry /
SideState objects with fully symbolic fields.

The classes are the repository's own (methods are resolved in the real source); only the object
*state* is symbolic.
"""
import ast
import z3
from .values import (C, S, E, O, R, T, U, NONE, TRUE, FALSE, BT, BF, zand, zor, znot, alts, mk_union, ite, py_of,
                     is_concrete, ClassRef, Builtin, EnumMember, FuncRef, BoundMethod)
from . import prims as P
from .prims import OutOfSubset
from .engine import HObj, Effect, VAL, RAISE
from . import builtins as B

PROVIDER_API_WRITES = ("create", "upload", "rename", "delete", "mkdir", "mkdirs", "rmtree")
PROVIDER_API_READS = ("info_oid", "info_path", "download", "listdir", "exists_oid", "exists_path", "hash_oid",
                      "hash_data", "events", "walk", "walk_oid", "listdir_oid", "listdir_path", "download_path",
                      "connect", "disconnect", "reconnect", "set_root", "get_quota", "info_root")

CLOUD_EXC = ["CloudException", "CloudFileNotFoundError", "CloudTemporaryError", "CloudFileNameError",
             "CloudOutOfSpaceError", "CloudRootMissingError", "CloudResourceModifiedError", "CloudFileExistsError",
             "CloudTokenError", "CloudDisconnectedError", "CloudCursorError", "CloudNamespaceError",
             "CloudTooManyRetriesError", "CloudCorruptError"]


def cls(eng, dotted):
    mod, name = dotted.split(":")
    return ClassRef(eng.repo.module(mod).classes[name])


def enum_member(eng, dotted, name):
    c = cls(eng, dotted)
    for m in eng.enum_members(c.info):
        if m.name == name:
            return C(m)
    raise KeyError(name)


def fresh_enum(eng, st, dotted, name):
    c = cls(eng, dotted)
    ms = eng.enum_members(c.info)
    t = z3.Int(P.fresh_name(name))
    st.axiom(z3.And(t >= 0, t < len(ms)))
    return E(c.info, t)


def named(sort, name):
    if sort == "str":
        return S("str", z3.String(name))
    if sort == "real":
        return S("real", z3.Real(name))
    if sort == "int":
        return S("int", z3.Int(name))
    if sort == "bool":
        return S("bool", z3.Bool(name))
    return O(sort, z3.Const(name, P.opaque_sort(sort)))


def opt(name, v):
    isn = z3.Bool(name + "?none")
    return mk_union([(isn, NONE), (znot(isn), v)])


def cloud_exc_classes(eng, names=None):
    return [cls(eng, "cloudsync.exceptions:" + n) for n in (names or CLOUD_EXC)]


# ---------------------------------------------------------------------------------------------
# providers
# ---------------------------------------------------------------------------------------------

def make_provider(eng, st, side, cfg=None, name=None):
    cfg = cfg or {"name": "default", "sep": "/", "alt_sep": "\\", "case_sensitive": True, "win_paths": False}
    from . import fixtures
    nm = name or ("prov%d" % side)
    oip = z3.Bool("%s.oid_is_path" % nm)
    ds = z3.Real("%s.default_sleep" % nm)
    st.axiom(ds > 0)
    cref = fixtures.provider_class(eng, cfg, extra={
        "oid_is_path": S("bool", oip), "default_sleep": S("real", ds), "name": C(nm)})
    cref.info.name = "Prov<%s>" % cfg["name"]
    r = st.alloc(HObj("obj", cref, fields={"_root_path": opt(nm + "._root_path", named("str", nm + "._root_path")),
                                           "_root_oid": opt(nm + "._root_oid", named("str", nm + "._root_oid")),
                                           "connection_id": C("conn-" + nm)},
                      meta={"tag": "provider", "side": side, "name": nm}))
    return r


def new_oinfo(eng, st, prefix, may_be_none=False):
    """a fresh OInfo with arbitrary well-typed fields"""
    p = P.fresh_name(prefix)
    otype = fresh_enum(eng, st, "cloudsync.types:OType", p + ".otype")
    fields = {
        "otype": otype,
        "oid": named("str", p + ".oid"),
        "hash": opt(p + ".hash", named("Hash", p + ".hash")),
        "path": opt(p + ".path", named("str", p + ".path")),
        "size": named("int", p + ".size"),
        "name": NONE, "mtime": opt(p + ".mtime", named("real", p + ".mtime")),
        "shared": FALSE, "readonly": FALSE, "custom": NONE,
    }
    st.axiom(z3.Length(fields["oid"].t) > 0)
    r = st.alloc(HObj("obj", cls(eng, "cloudsync.types:OInfo"), fields=fields, meta={"dataclass": True}))
    if may_be_none:
        isn = z3.Bool(p + "?none")
        return mk_union([(isn, NONE), (znot(isn), r)])
    return r


API_RESULT = {
    "create": "oinfo", "upload": "oinfo", "rename": "oid", "delete": "none", "mkdir": "oid", "mkdirs": "oid",
    "rmtree": "none", "info_oid": "oinfo?", "info_path": "oinfo?", "download": "none", "exists_oid": "bool",
    "exists_path": "bool", "hash_oid": "hash?", "hash_data": "hash", "listdir": "oinfos", "connect": "none",
    "disconnect": "none", "reconnect": "none", "get_quota": "opaque", "set_root": "pair",
}

API_RAISES = {
    "download": CLOUD_EXC + ["Exception", "FileNotFoundError", "PermissionError"],
    "hash_data": ["Exception"],
}


def provider_api_handler(method):
    def h(eng, st, self_v, args, kwargs):
        o = st.obj(self_v)
        side = o.meta.get("side")
        pname = o.meta.get("name")
        res = []
        raises = API_RAISES.get(method, CLOUD_EXC + ["Exception"])
        allowed = []
        for n in raises:
            allowed.append(cls(eng, "cloudsync.exceptions:" + n) if n.startswith("Cloud") else ClassRef(n))
        deny = eng.ghost_cfg.get("no_raise", ())
        ok_flag = z3.Bool(P.fresh_name("%s.%s.ok" % (pname, method)))
        eff = Effect(side, method, list(args), dict(kwargs), None, tag=ok_flag)
        # outcome 1: raises
        if method not in deny and not eng.ghost_cfg.get("providers_never_raise"):
            s2 = st.clone()
            s2.assume(znot(ok_flag))
            ex = eng.sym_exc(s2, allowed, prefix="%s.%s.exc" % (pname, method))
            s2.effects.append(eff)
            res.append((s2, (RAISE, ex)))
        # outcome 2: returns
        st.assume(ok_flag)
        kind = API_RESULT.get(method, "opaque")
        if kind == "oinfo":
            v = new_oinfo(eng, st, "%s.%s" % (pname, method))
        elif kind == "oinfo?":
            v = new_oinfo(eng, st, "%s.%s" % (pname, method), may_be_none=True)
        elif kind == "oid":
            v = P.fresh("str", "%s.%s.oid" % (pname, method))
            st.axiom(z3.Length(v.t) > 0)
        elif kind == "bool":
            v = P.fresh("bool", "%s.%s" % (pname, method))
        elif kind == "hash":
            v = P.fresh("Hash", "%s.%s" % (pname, method))
        elif kind == "hash?":
            v = opt(P.fresh_name("%s.%s" % (pname, method)), P.fresh("Hash", "%s.%s" % (pname, method)))
        elif kind == "none":
            v = NONE
        elif kind == "oinfos":
            def gen(eng_, s_):
                return [(s_, new_oinfo(eng_, s_, "%s.listdir.item" % pname))]
            v = B.new_abslist(eng, st, gen, name="listdir")
        elif kind == "pair":
            v = T([P.fresh("str", "root_path"), P.fresh("str", "root_oid")])
        else:
            v = P.fresh("Foreign", "%s.%s" % (pname, method))
        eff.result = v
        st.effects.append(eff)
        res.append((st, (VAL, v)))
        return res
    return h


def install_provider_api(eng):
    for m in PROVIDER_API_WRITES + PROVIDER_API_READS:
        eng.handlers["cloudsync.provider:Provider." + m] = provider_api_handler(m)


# ---------------------------------------------------------------------------------------------
# abstract sets of entries (changeset / dirty set): membership of the entries in scope is tracked,
# the rest of the set is unknown
# ---------------------------------------------------------------------------------------------

def make_absset(eng, st, name):
    o = HObj("opaque", None, fields={}, meta={"tag": "absset", "name": name, "members": {}})
    r = st.alloc(o)

    def member(s, ent):
        ob = s.obj(r)
        if isinstance(ent, U):
            return zor(*[zand(g, member(s, b)) for g, b in ent.alts])
        if not isinstance(ent, R):
            return BF
        if ent.addr not in ob.meta["members"]:
            mm = dict(ob.meta["members"])
            mm[ent.addr] = z3.Bool(P.fresh_name("%s.has.%d" % (name, ent.addr)))
            ob.meta = dict(ob.meta)
            ob.meta["members"] = mm
        return ob.meta["members"][ent.addr]

    def setm(s, ent, val, quiet=False):
        ob = s.obj(r)
        mm = dict(ob.meta["members"])
        for g, b in alts(ent):
            if isinstance(b, R):
                old = mm.get(b.addr)
                if old is None:
                    old = member(s, b)
                    mm = dict(s.obj(r).meta["members"])
                mm[b.addr] = val if z3.is_true(g) else z3.If(g, val, old)
        ob = s.obj(r)
        ob.meta = dict(ob.meta)
        ob.meta["members"] = mm
        if not quiet:
            s.touch(ob)

    def m_add(eng_, s, recv, args, kwargs):
        setm(s, args[0], BT)
        return eng_.ok(s, NONE)

    def m_discard(eng_, s, recv, args, kwargs):
        setm(s, args[0], BF)
        return eng_.ok(s, NONE)

    def m_clear(eng_, s, recv, args, kwargs):
        ob = s.obj(r)
        ob.meta = dict(ob.meta)
        ob.meta["members"] = {a: BF for a in ob.meta["members"]}
        ob.meta["cleared"] = True
        s.touch(ob)
        return eng_.ok(s, NONE)

    def contains(eng_, s, c, item):
        return eng_.ok(s, P.mk_bool(member(s, item)))
    def as_list(eng_, s, setref):
        """the members as an abstract list: entries in scope whose membership holds, plus arbitrary other members"""
        ob = s.obj(setref)
        state_ref = ob.meta.get("state")
        known = [R(a) for a in ob.meta["members"] if a in s.heap]

        def gen(e2, s2):
            if state_ref is None:
                raise OutOfSubset("iteration over an abstract set that is not attached to a state")
            e = _fresh_entry(e2, s2, state_ref, name + ".member")
            setm(s2, e, BT, quiet=True)      # materialising an unknown member is not a write of the set
            return [(s2, e)]
        lst = B.new_abslist(eng_, s, gen, name=name + ".items", known=known)

        def flt(e2, s2, v):
            c = member(s2, v)
            if z3.is_false(c) or not e2.feasible(s2, c):
                return []
            s2.assume(c)
            return [(s2, True)]
        lo = s.obj(lst)
        lo.meta["filters"].append(flt)
        lo.meta["must"] = [(member(s, k), k) for k in known]
        s.axiom(z3.Implies(zor(*[member(s, k) for k in known]), lo.meta["nonempty"]))
        return lst

    def truth(s, setref):
        ob = s.obj(setref)
        if "nonempty_rest" not in ob.meta:
            ob.meta = dict(ob.meta)
            ob.meta["nonempty_rest"] = z3.Bool(P.fresh_name(name + ".rest_nonempty"))
        return zor(ob.meta["nonempty_rest"], *[m for m in ob.meta["members"].values()])
    o.meta["methods"] = {"add": m_add, "discard": m_discard, "clear": m_clear, "remove": m_discard}
    o.meta["contains"] = contains
    o.meta["member"] = member
    o.meta["iter"] = as_list
    o.meta["truth"] = truth
    return r


def absset_member(st, setref, ent):
    o = st.obj(setref)
    if "member" not in o.meta:
        # the code under verification replaced the abstract set by a concrete one (set() / list): membership by identity
        if o.kind in ("set", "list") and isinstance(ent, R):
            conds = []
            for it in o.items:
                for g, b_ in alts(it):
                    if isinstance(b_, R) and b_.addr == ent.addr:
                        conds.append(g)
            return zor(*conds) if conds else BF
        raise OutOfSubset("membership in a %s that replaced an abstract set" % o.kind)
    return o.meta["member"](st, ent)


# ---------------------------------------------------------------------------------------------
# entries
# ---------------------------------------------------------------------------------------------

SIDE_FIELDS = ("otype", "hash", "changed", "last_gotten", "sync_hash", "sync_path", "path", "oid", "exists",
               "force_sync", "temp_file", "size", "mtime", "saved_exists")


def make_side(eng, st, entry_ref, side, prefix):
    n = "%s[%d]" % (prefix, side)
    changed = z3.Real(n + ".changed")
    ckind = z3.Int(n + ".changed?kind")     # 0: None, 1: 0 (int), 2: positive float, 3: False
    st.axiom(z3.And(ckind >= 0, ckind <= 3))
    st.axiom(changed > 0)
    chv = mk_union([(ckind == 0, NONE), (ckind == 1, C(0)), (ckind == 2, S("real", changed)), (ckind == 3, FALSE)])
    saved_none = z3.Bool(n + ".saved_exists?none")
    fields = {
        "_parent": entry_ref,
        "_side": C(side),
        "_otype": fresh_enum(eng, st, "cloudsync.types:OType", n + ".otype"),
        "_hash": opt(n + ".hash", named("Hash", n + ".hash")),
        "_changed": chv,
        "_last_gotten": named("real", n + ".last_gotten"),
        "_sync_hash": opt(n + ".sync_hash", named("Hash", n + ".sync_hash")),
        "_sync_path": opt(n + ".sync_path", named("str", n + ".sync_path")),
        "_path": opt(n + ".path", named("str", n + ".path")),
        "_oid": opt(n + ".oid", named("str", n + ".oid")),
        "_exists": fresh_enum(eng, st, "cloudsync.sync.state:Exists", n + ".exists"),
        "_force_sync": named("bool", n + ".force_sync"),
        "_temp_file": opt(n + ".temp_file", named("str", n + ".temp_file")),
        "_size": opt(n + ".size", named("int", n + ".size")),
        "_mtime": opt(n + ".mtime", named("real", n + ".mtime")),
        "_saved_exists": mk_union([(saved_none, NONE), (znot(saved_none),
                                                       fresh_enum(eng, st, "cloudsync.sync.state:Exists", n + ".saved_exists"))]),
    }
    st.axiom(named("real", n + ".last_gotten").t >= 0)
    st.axiom(z3.Length(z3.String(n + ".oid")) > 0)      # an oid, when present, is a non-empty string
    return st.alloc(HObj("obj", cls(eng, "cloudsync.sync.state:SideState"), fields=fields,
                         meta={"tag": "sidestate", "side": side, "entry": entry_ref.addr, "prefix": n}))


def assume_entry_invariants(eng, st, ent):
    s0, s1 = side_of(st, ent, 0), side_of(st, ent, 1)
    c0 = P.truth(st, st.obj(s0).fields["_changed"])
    c1 = P.truth(st, st.obj(s1).fields["_changed"])
    st.pending = []
    st.axiom(z3.Not(z3.And(c0, c1, P.is_none(st.obj(s0).fields["_oid"]), P.is_none(st.obj(s1).fields["_oid"]))))


def make_entry(eng, st, state_ref, prefix):
    """a SyncEntry with arbitrary field values (type invariants only)"""
    ent = st.alloc(HObj("obj", cls(eng, "cloudsync.sync.state:SyncEntry"), fields={}, meta={"tag": "entry", "prefix": prefix}))
    s0 = make_side(eng, st, ent, 0, prefix)
    s1 = make_side(eng, st, ent, 1, prefix)
    states = st.alloc(HObj("list", "list", items=[s0, s1]))
    o = st.obj(ent)
    o.fields["_SyncEntry__states"] = states
    o.fields["_ignored"] = fresh_enum(eng, st, "cloudsync.types:IgnoreReason", prefix + ".ignored")
    o.fields["_storage_id"] = opt(prefix + ".storage_id", named("int", prefix + ".storage_id"))
    o.fields["_priority"] = named("real", prefix + ".priority")
    o.fields["_parent"] = state_ref
    o.meta = dict(o.meta)
    o.meta["initial"] = {"_ignored": o.fields["_ignored"], "_priority": o.fields["_priority"],
                         0: dict(st.obj(s0).fields), 1: dict(st.obj(s1).fields)}
    # representation invariant assumed of every entry handed to the engine (maintained by the `changed` fix-up in
    # SyncState.updated; checked at run time by the C11 bounded stand-in): never both sides flagged changed with
    # neither side having an oid.  Without it SyncState.updated('changed') recurses without bound.
    assume_entry_invariants(eng, st, ent)
    if state_ref is not None:
        so = st.obj(state_ref)
        so.meta.setdefault("entries", [])
        so.meta = dict(so.meta)
        so.meta["entries"] = list(so.meta["entries"]) + [ent]
    return ent


def side_of(st, ent, side):
    states = st.obj(ent).fields["_SyncEntry__states"]
    return st.obj(states).items[side]


def side_field(st, ent, side, name):
    return st.obj(side_of(st, ent, side)).fields["_" + name]


# ---------------------------------------------------------------------------------------------
# state
# ---------------------------------------------------------------------------------------------

def make_state(eng, st, providers):
    scls = cls(eng, "cloudsync.sync.state:SyncState")
    lock = st.alloc(HObj("opaque", None, meta={"tag": "lock"}))
    punt0 = P.real_of(B.class_lookup_ext(eng, B._obj_class(st.obj(providers[0])), "default_sleep")[1])
    punt1 = P.real_of(B.class_lookup_ext(eng, B._obj_class(st.obj(providers[1])), "default_sleep")[1])
    fields = {
        "providers": T(providers),
        "_changeset_storage": make_absset(eng, st, "changeset"),
        "_dirtyset": make_absset(eng, st, "dirtyset"),
        "_storage": NONE,
        "_tag": NONE,
        "_loading": FALSE,
        "lock": lock,
        "shuffle": FALSE,
        "_punt_secs": T([S("real", punt0 / 10), S("real", punt1 / 10)]),
        "_last_changed_time": named("real", "state._last_changed_time"),
        "_pretty_time": named("real", "state._pretty_time"),
        "_nmgr": NONE,
        "data_id": NONE,
    }
    st.axiom(z3.Real("state._last_changed_time") > 0)
    st.axiom(z3.Real("clock.now") > 0)
    r = st.alloc(HObj("obj", scls, fields=fields, meta={"tag": "state", "entries": []}))
    for nm_ in ("_changeset_storage", "_dirtyset"):
        so_ = st.obj(fields[nm_])
        so_.meta["state"] = r
    fields["prioritize"] = st.alloc(HObj("opaque", None, meta={"tag": "prioritize", "call": _prioritize_call}))
    # the two indexes as *open* dicts: bindings touched by the code under verification are tracked, the rest of each
    # map is unknown (any key may be bound to some other entry)
    # An entry found through an index satisfies the index invariant for the binding it was found under (I1 / I2):
    # it carries that oid (and path) on that side.
    def gen_entry_for(side, path=None):
        def gen_entry(eng_, s_, key):
            e = _fresh_entry(eng_, s_, r, "indexed")
            so = s_.obj(side_of(s_, e, side))
            so.fields["_oid"] = key
            if path is not None:
                so.fields["_path"] = path
            e_o = s_.obj(e)
            e_o.meta = dict(e_o.meta)
            e_o.meta["initial"] = {"_ignored": e_o.fields["_ignored"], "_priority": e_o.fields["_priority"],
                                   0: dict(s_.obj(side_of(s_, e, 0)).fields), 1: dict(s_.obj(side_of(s_, e, 1)).fields)}
            assume_entry_invariants(eng_, s_, e)
            # an entry that is in the index satisfies the pending-set rule (I4) to begin with
            flags = []
            for sd_ in (0, 1):
                so_ = s_.obj(side_of(s_, e, sd_))
                flags.append(zand(P.truth(s_, so_.fields["_changed"]), P.truth(s_, so_.fields["_oid"])))
            s_.pending = []
            cso = s_.obj(s_.obj(r).fields["_changeset_storage"])
            mm = dict(cso.meta["members"])
            mm[e.addr] = zor(*flags)
            cso.meta = dict(cso.meta)
            cso.meta["members"] = mm
            return e
        return gen_entry

    def gen_inner_for(side):
        def gen_inner(eng_, s_, key):
            return s_.alloc(HObj("dict", "dict", meta={"open": True, "gen": gen_entry_for(side, key), "tag": "index-inner", "no_none_keys": True}))
        return gen_inner
    fields["_oids"] = T([st.alloc(HObj("dict", "dict", meta={"open": True, "gen": gen_entry_for(i), "tag": "index", "no_none_keys": True})) for i in (0, 1)])
    fields["_paths"] = T([st.alloc(HObj("dict", "dict", meta={"open": True, "gen": gen_inner_for(i), "tag": "index", "no_none_keys": True})) for i in (0, 1)])
    return r


def _prioritize_call(eng, st, fv, args, kwargs):
    f = z3.Function("prioritize", P.IntS, P.StrS, P.RealS)
    side, path = args
    if P.is_str(path):
        return eng.ok(st, S("real", f(P.int_of(side), P.str_of(path))))
    return eng.ok(st, P.fresh("real", "prio"))


def havoc_other_entries(eng, st, state_ref, ent, side, fields, when=None):
    """index maintenance may oust / re-path other entries on `side`: their listed fields become arbitrary (only under
    the condition `when`, if given: e.g. _change_path touches other entries only for a new, non-empty path)"""
    if when is not None and z3.is_false(z3.simplify(when)):
        return

    def sel(new, old):
        return new if when is None else ite(when, new, old)
    for other in st.obj(state_ref).meta.get("entries", []):
        if other.addr == ent.addr:
            continue
        so = st.obj(side_of(st, other, side))
        pre = P.fresh_name("havoc.%s" % so.meta.get("prefix"))
        for f in fields:
            if f == "oid":
                so.fields["_oid"] = sel(ite(z3.Bool(pre + ".oid.kept"), so.fields["_oid"], NONE), so.fields["_oid"])
            elif f == "path":
                so.fields["_path"] = sel(opt(pre + ".path", named("str", pre + ".path")), so.fields["_path"])
            elif f == "sync_path":
                so.fields["_sync_path"] = sel(opt(pre + ".sync_path", named("str", pre + ".sync_path")), so.fields["_sync_path"])
            elif f == "changed":
                so.fields["_changed"] = sel(mk_union([(z3.Bool(pre + ".changed.kept"), so.fields["_changed"]),
                                                      (znot(z3.Bool(pre + ".changed.kept")), C(0))]), so.fields["_changed"])
        st.touch(so)
        oo = st.obj(other)
        oo.fields["_priority"] = sel(named("real", pre + ".priority"), oo.fields["_priority"])
        st.touch(oo)


def h_change_path(eng, st, self_v, args, kwargs):
    """contract of SyncState._change_path(side, ent, path, provider) as used by the manager lemmas:
       ent[side]._path == path afterwards when path is truthy (the caller stores it otherwise);
       may re-prioritise ent; may oust / move other entries on that side (havocked)."""
    side, ent, path, provider = args
    sd = py_of(side)
    so = st.obj(side_of(st, ent, sd))
    t = P.truth(st, path)
    prior = so.fields["_path"]
    same = P.eq(st, prior, path)
    newp = ite(zand(t, znot(same)), path, prior)
    so.fields["_path"] = newp
    st.touch(so)
    # priority may be re-assigned from prioritize(side, path); punting shifts `changed` (see `updated`)
    eo = st.obj(ent)
    pre = P.fresh_name("chpath")
    changed_prio = z3.Bool(pre + ".reprioritised")
    newprio = named("real", pre + ".priority")
    oldprio = eo.fields["_priority"]
    eo.fields["_priority"] = ite(zand(t, znot(same), changed_prio), newprio, oldprio)
    st.touch(eo)
    for s_i in (0, 1):
        so_i = st.obj(side_of(st, ent, s_i))
        ch = so_i.fields["_changed"]
        shifted = []
        for g, b in alts(ch):
            if isinstance(b, S) and b.sort == "real":
                shifted.append((g, S("real", z3.If(zand(t, znot(same), changed_prio, P.real_of(newprio) > P.real_of(oldprio), P.real_of(newprio) > 0),
                                                   b.t + P.real_of(st.obj(self_v).fields["_punt_secs"].items[s_i]), b.t))))
            else:
                shifted.append((g, b))
        so_i.fields["_changed"] = mk_union(shifted)
        st.touch(so_i)
    st.ghost["dirty:%d" % ent.addr] = True
    # the body touches other entries (ousting the previous holder of (path, oid), re-rooting children, priorities) only
    # when a new non-empty path is recorded; for an unchanged or empty path it only drops this entry's own path binding
    havoc_other_entries(eng, st, self_v, ent, sd, ("path", "sync_path", "oid", "changed"), when=zand(t, znot(same)))
    return eng.ok(st, NONE)


def h_change_oid(eng, st, self_v, args, kwargs):
    """contract of SyncState._change_oid(side, ent, oid): ent[side]._oid == oid afterwards when oid is not None;
       the changeset gains ent when it has an oid and a change flag, loses it when oid is None and only this side
       was changed; another entry that owned the oid loses it (havocked)."""
    side, ent, oid = args
    sd = py_of(side)
    so = st.obj(side_of(st, ent, sd))
    isn = P.is_none(oid)
    so.fields["_oid"] = ite(isn, so.fields["_oid"], oid)
    st.touch(so)
    state = st.obj(self_v)
    cs = state.fields["_changeset_storage"]
    mem = absset_member(st, cs, ent)
    ch_this = P.truth(st, so.fields["_changed"])
    ch_other = P.truth(st, st.obj(side_of(st, ent, 1 - sd)).fields["_changed"])
    st.pending = []
    newmem = z3.If(isn, z3.If(z3.And(ch_this, z3.Not(ch_other)), False, mem), z3.If(z3.Or(ch_this, ch_other), True, mem))
    cso = st.obj(cs)
    mm = dict(cso.meta["members"])
    mm[ent.addr] = newmem
    cso.meta = dict(cso.meta)
    cso.meta["members"] = mm
    st.touch(cso)
    # the entry that was bound in the index under the new oid is ousted: it loses the oid (proved on the real body by
    # state_index.oid_assignment_maintains_index_and_pending_set, "the oid slot leads to the entry")
    for other in oid_indexed_entries(st, self_v, sd):
        if other.addr == ent.addr:
            continue
        oso = st.obj(side_of(st, other, sd))
        same = zand(znot(isn), P.eq(st, oso.fields["_oid"], oid))
        if not z3.is_false(same):
            oso.fields["_oid"] = ite(same, NONE, oso.fields["_oid"])
            st.touch(oso)
    havoc_other_entries(eng, st, self_v, ent, sd, ("oid", "changed"))
    state = st.obj(self_v)
    state.meta = dict(state.meta)
    state.meta["indexed_oid"] = set(state.meta.get("indexed_oid", ())) | {(ent.addr, sd)}
    return eng.ok(st, NONE)


def install_state_contracts(eng):
    eng.handlers["cloudsync.sync.state:SyncState._change_path"] = h_change_path
    eng.handlers["cloudsync.sync.state:SyncState._change_oid"] = h_change_oid


# ---------------------------------------------------------------------------------------------
# a complete world: two providers, a state, a manager
# ---------------------------------------------------------------------------------------------

def make_world(eng, st, with_manager=True):
    smart = bool(eng.cur_lemma.opts.get("smart")) if eng.cur_lemma is not None else False
    p0 = make_provider(eng, st, 0)
    p1 = make_provider(eng, st, 1)
    state = make_state(eng, st, [p0, p1])
    if smart:
        so = st.obj(state)
        so.cls = cls(eng, "cloudsync.smartsync:SmartSyncState")
        so.fields["requestset"] = make_absset(eng, st, "requestset")
        so.fields["excludeset"] = make_absset(eng, st, "excludeset")
        so.fields["_callbacks"] = st.alloc(HObj("list", "list", items=[]))
    w = {"providers": [p0, p1], "state": state}
    if with_manager:
        mcls = cls(eng, "cloudsync.smartsync:SmartSyncManager" if smart else "cloudsync.sync.manager:SyncManager")
        nmgr = st.alloc(HObj("opaque", None, meta={"tag": "nmgr", "methods": {
            "notify": _nmgr_notify, "notify_from_exception": _nmgr_notify_exc}}))
        translate = st.alloc(HObj("opaque", None, meta={"tag": "translate", "call": _translate_call}))
        resolver = st.alloc(HObj("opaque", None, meta={"tag": "resolver", "call": _resolver_call}))
        fields = {
            "state": state, "providers": T([p0, p1]), "translate": translate, "_resolve_conflict": resolver,
            "tempdir": C("/tmp/x.cloudsync"), "_nmgr": nmgr, "_root_oids": NONE, "_root_paths": NONE,
            "aging": named("real", "mgr.aging"), "in_backoff": named("real", "mgr.in_backoff"),
            "min_backoff": named("real", "mgr.min_backoff"), "max_backoff": named("real", "mgr.max_backoff"),
            "mult_backoff": C(2),
        }
        mgr = st.alloc(HObj("obj", mcls, fields=fields, meta={"tag": "manager"}))
        w["manager"] = mgr
        w["nmgr"] = nmgr
        w["translate"] = translate
    return w


def _nmgr_notify(eng, st, recv, args, kwargs):
    st.effects.append(Effect("nmgr", "notify", list(args), dict(kwargs), None))
    return eng.ok(st, NONE)


def _nmgr_notify_exc(eng, st, recv, args, kwargs):
    st.effects.append(Effect("nmgr", "notify_from_exception", list(args), dict(kwargs), None))
    return eng.ok(st, NONE)


def _translate_call(eng, st, fv, args, kwargs):
    """the application's translate(side, path): deterministic, returns a str or None; never raises"""
    side, path = args
    out = []
    for g, b in alts(path):
        if not P.is_str(b):
            out.append((g, NONE))       # SyncManager.translate = lambda side, path: ... if path else None
            continue
        t = P.str_of(b)
        f = z3.Function("translate", P.IntS, P.StrS, P.StrS)
        fn = z3.Function("translate?none", P.IntS, P.StrS, P.BoolS)
        isn = z3.Or(fn(P.int_of(side), t), z3.Length(t) == 0)
        r = f(P.int_of(side), t)
        st.axiom(z3.Implies(z3.Not(isn), z3.Length(r) > 0))
        out.append((zand(g, isn), NONE))
        out.append((zand(g, znot(isn)), S("str", r)))
    return eng.ok(st, mk_union(out))


# ---------------------------------------------------------------------------------------------
# lemma-facing fixture and DSL builtins
# ---------------------------------------------------------------------------------------------

def _require_function(eng, qualname):
    """a lemma names a callee (stub / inline) that must exist in the source under verification; if it was renamed or
    removed the *contract* is out of date -- that is a checker fault to be fixed in /verif, never a violation"""
    modname, _, rest = qualname.partition(":")
    try:
        mod = eng.repo.module(modname)
    except KeyError:
        raise OutOfSubset("contract out of date: module %s named by the lemma does not exist" % modname)
    parts = rest.split(".")
    if len(parts) == 1:
        ok = parts[0] in mod.functions
    else:
        ci = mod.classes.get(parts[0])
        nm = parts[1]
        if nm.startswith("_%s__" % parts[0]):
            nm = nm[len(parts[0]) + 1:]
        ok = ci is not None and any(isinstance(n, (ast.FunctionDef,)) and n.name == nm for n in ci.node.body)
    if not ok:
        raise OutOfSubset("contract out of date: %s named by the lemma does not exist in the source" % qualname)


def fx_world(eng, st, pname):
    install_provider_api(eng)
    install_state_contracts(eng)
    install_state_lookups(eng)
    install_temp_contracts(eng)
    install_split_contract(eng)
    install_runnable_models(eng)
    install_event_models(eng)
    install_sorted_model(eng)
    from . import fixtures
    fixtures.install_normalize_path_model(eng)
    if eng.cur_lemma.opts.get("fixed_clock"):
        eng.handlers["clock"] = lambda e, s_, r, a, k: e.ok(s_, named("real", "clock.now"))
    for nm in eng.cur_lemma.opts.get("inline", ()):
        eng.handlers.pop(nm, None)
    for nm in list(eng.cur_lemma.opts.get("stubs", {})) + list(eng.cur_lemma.opts.get("inline", ())):
        _require_function(eng, nm)
    for nm, spec in eng.cur_lemma.opts.get("stubs", {}).items():
        eng.handlers[nm] = make_stub(nm, tuple(spec.get("results", ("FINISHED", "PUNT", "REQUEUE"))),
                                     spec.get("raises", True), spec.get("havoc", True))
    w = make_world(eng, st)
    cfg = eng.config or {}
    eng.ghost_cfg = dict(cfg)

    def m_entry(eng_, s, recv, args, kwargs):
        nm = py_of(args[0]) if args else "ent"
        wo = s.obj(recv)
        ent = make_entry(eng_, s, wo.fields["state"], nm)
        return eng_.ok(s, ent)

    def m_oinfo(eng_, s, recv, args, kwargs):
        nm = py_of(args[0]) if args else "info"
        return eng_.ok(s, new_oinfo(eng_, s, nm))

    def m_runnable(eng_, s, recv, args, kwargs):
        rc = cls(eng_, "cloudsync.runnable:Runnable")
        flds = {"in_backoff": named("real", "run.in_backoff"), "min_backoff": named("real", "run.min_backoff"),
                "max_backoff": named("real", "run.max_backoff"), "mult_backoff": named("real", "run.mult_backoff"),
                "_Runnable__shutdown": named("bool", "run.shutdown"), "_Runnable__stopping": named("bool", "run.stopping"),
                "_Runnable__stopped": named("bool", "run.stopped"), "_Runnable__clear_on_success": named("bool", "run.clear_on_success"),
                "_Runnable__interrupt": NONE, "_Runnable__thread": NONE, "_Runnable__log": NONE,
                "service_name": C("svc"), "_run_until": NONE}
        return eng_.ok(s, s.alloc(HObj("obj", rc, fields=flds, meta={"tag": "runnable"})))

    def m_thread(eng_, s, recv, args, kwargs):
        """some other thread (not the caller): join() returns, is_alive() is arbitrary; calls are logged"""
        def join(e_, s_, r_, a_, k_):
            s_.effects.append(Effect("thread", "join", list(a_), {}, None))
            return e_.ok(s_, NONE)

        def is_alive(e_, s_, r_, a_, k_):
            return e_.ok(s_, P.fresh("bool", "thread.alive"))
        return eng_.ok(s, s.alloc(HObj("opaque", None, meta={"tag": "thread", "name": "service", "truthy": True,
                                                              "methods": {"join": join, "is_alive": is_alive}})))

    def m_cloud_exception(eng_, s, recv, args, kwargs):
        names = list(CLOUD_EXC)
        allowed = [cls(eng_, "cloudsync.exceptions:" + n) for n in names]
        if args and py_of(args[0]) == "any":
            allowed += [ClassRef("Exception"), ClassRef("ValueError"), ClassRef("OSError"), ClassRef("KeyError")]
        return eng_.ok(s, eng_.sym_exc(s, allowed, prefix="exc"))

    def m_notification_manager(eng_, s, recv, args, kwargs):
        nc = cls(eng_, "cloudsync.notification:NotificationManager")

        def q_put(e_, s_, r_, a_, k_):
            s_.effects.append(Effect("queue", "put", list(a_), {}, None))
            return e_.ok(s_, NONE)
        q = s.alloc(HObj("opaque", None, meta={"tag": "queue", "methods": {"put": q_put}}))
        handler = s.alloc(HObj("opaque", None, meta={"tag": "handler"}))
        flds = {"_NotificationManager__queue": q, "_NotificationManager__handler": handler, "_run_until": NONE}
        return eng_.ok(s, s.alloc(HObj("obj", nc, fields=flds, meta={"tag": "nmgr_real"})))

    def m_event_manager(eng_, s, recv, args, kwargs):
        return eng_.ok(s, make_event_manager(eng_, s, s.obj(recv), py_of(args[0])))

    def m_event(eng_, s, recv, args, kwargs):
        return eng_.ok(s, new_event(eng_, s, py_of(args[0]) if args else "ev"))

    def m_resolve_file(eng_, s, recv, args, kwargs):
        nm = py_of(args[0])
        side = args[1]
        noop = lambda e, s_, r, a, k: e.ok(s_, NONE)
        flds = {"otype": fresh_enum(eng_, s, "cloudsync.types:OType", nm + ".otype"), "side": side,
                "path": named("str", nm + ".path"), "hash": named("Hash", nm + ".hash")}
        return eng_.ok(s, s.alloc(HObj("opaque", None, fields=flds,
                                       meta={"tag": "resolve_file", "methods": {"read": noop, "close": noop, "seek": noop}})))

    def m_storage(eng_, s, recv, args, kwargs):
        """an arbitrary implementation of the Storage interface: every call is logged ('storage:<method>'), may raise,
        create returns an arbitrary non-None id"""
        def mk(method):
            def h(e_, s_, r_, a_, k_):
                res = []
                okf = z3.Bool(P.fresh_name("storage.%s.ok" % method))
                eff = Effect("storage", "storage:" + method, list(a_), {"_held": s_.ghost.get("held", 0)}, None, tag=okf)
                s2 = s_.clone()
                s2.assume(znot(okf))
                s2.effects.append(eff)
                res.append((s2, (RAISE, e_.sym_exc(s2, [ClassRef("Exception")], prefix="storage.%s.exc" % method))))
                s_.assume(okf)
                v = NONE
                if method == "create":
                    v = P.fresh("int", "storage.create.eid")
                if method == "update":
                    v = P.fresh("int", "storage.update.rows")
                    s_.axiom(v.t >= 0)
                eff.result = v
                s_.effects.append(eff)
                res.append((s_, (VAL, v)))
                return res
            return h
        methods = {m: mk(m) for m in ("create", "update", "delete", "close")}
        if args:
            rows = args[0]          # read_all(tag) returns these rows (a dict built by the lemma)

            def read_all(e_, s_, r_, a_, k_):
                s_.effects.append(Effect("storage", "storage:read_all", list(a_), {"_held": s_.ghost.get("held", 0)}, rows))
                return e_.ok(s_, rows)
            methods["read_all"] = read_all

            def read(e_, s_, r_, a_, k_):
                s_.effects.append(Effect("storage", "storage:read", list(a_), {"_held": s_.ghost.get("held", 0)}, None))
                res_ = []
                for s2, (t2, fv) in e_.getattr_v(s_, rows, "get"):
                    res_.extend(e_.call_value(s2, fv, [a_[1]], {}))
                return res_
            methods["read"] = read
        return eng_.ok(s, s.alloc(HObj("opaque", None, meta={"tag": "storage", "methods": methods, "truthy": True})))

    fields = {"mgr": w["manager"], "state": w["state"], "p0": w["providers"][0], "p1": w["providers"][1],
              "providers": T(w["providers"]), "nmgr": w["nmgr"]}
    for k, v in cfg.items():
        if k != "name" and isinstance(v, (int, bool, str)):
            fields[k] = C(v)
    r = st.alloc(HObj("opaque", None, fields=fields, meta={"tag": "world", "methods": {"entry": m_entry, "oinfo": m_oinfo, "runnable": m_runnable,
                                                        "cloud_exception": m_cloud_exception,
                                                        "notification_manager": m_notification_manager,
                                                        "resolve_file": m_resolve_file,
                                                        "event_manager": m_event_manager, "event": m_event, "storage": m_storage, "thread": m_thread}}))
    eng.inputs[pname] = "world"
    return r


def _effect_obj(eng, st, e):
    ok = e.tag if e.tag is not None else BT
    kw = {("kw_" + k): v for k, v in (e.kwargs or {}).items() if isinstance(k, str) and not k.startswith("_") and not isinstance(v, (int, str, float, type(None)))}
    return st.alloc(HObj("opaque", None, fields={**kw, 
        "method": C(e.method), "side": C(e.recv) if isinstance(e.recv, (int, str)) else NONE,
        "args": T(e.args), "ok": P.mk_bool(ok), "result": e.result if e.result is not None else NONE,
        "kwargs": NONE, "held": C(e.kwargs.get("_held", -1) if isinstance(e.kwargs, dict) else -1)}, meta={"tag": "effect"}))


def _b_provider_calls(eng, st, recv, args, kwargs):
    mark = st.mark()
    items = [_effect_obj(eng, st, e) for e in st.effects if isinstance(e.recv, int)]
    return eng.ok(st, T(items))


def _b_provider_writes(eng, st, recv, args, kwargs):
    items = [_effect_obj(eng, st, e) for e in st.effects if isinstance(e.recv, int) and e.method in PROVIDER_API_WRITES]
    return eng.ok(st, T(items))


def _b_notifications(eng, st, recv, args, kwargs):
    items = [_effect_obj(eng, st, e) for e in st.effects if e.recv == "nmgr"]
    return eng.ok(st, T(items))


def _b_in_changeset(eng, st, recv, args, kwargs):
    state, ent = args
    return eng.ok(st, P.mk_bool(absset_member(st, st.obj(state).fields["_changeset_storage"], ent)))


def _b_is_dirty(eng, st, recv, args, kwargs):
    state, ent = args
    return eng.ok(st, P.mk_bool(absset_member(st, st.obj(state).fields["_dirtyset"], ent)))


def _b_calls(eng, st, recv, args, kwargs):
    """calls("name"): the logged calls of a stubbed / contracted callee or of the state (storage_commit, ...)"""
    nm = py_of(args[0])
    items = [_effect_obj(eng, st, e) for e in st.effects if e.method == nm and not isinstance(e.recv, int)]
    return eng.ok(st, T(items))


def _b_effect_order(eng, st, recv, args, kwargs):
    """effect_names(): the names of all logged effects in order (provider writes as 'write:<method>')"""
    out = []
    for e in st.effects:
        if isinstance(e.recv, int):
            out.append(C(("write:" if e.method in PROVIDER_API_WRITES else "read:") + e.method))
        else:
            out.append(C(e.method))
    return eng.ok(st, T(out))


def _b_clock(eng, st, recv, args, kwargs):
    """now(): the value the (single, fixed) clock returns inside the call under verification"""
    return eng.ok(st, named("real", "clock.now"))


PERSISTED_SIDE_FIELDS = ("_otype", "_hash", "_changed", "_sync_hash", "_sync_path", "_path", "_oid", "_exists",
                         "_temp_file", "_size", "_mtime", "_saved_exists")


def _b_all_entries(eng, st, recv, args, kwargs):
    """all_entries(state): every entry in scope, including those the code found through the indexes"""
    return eng.ok(st, T(known_entries(st, args[0])))


def _b_persisted_changed(eng, st, recv, args, kwargs):
    """persisted_changed(ent): some persisted field of the entry differs from its value at the start"""
    ent = args[0]
    eo = st.obj(ent)
    init = eo.meta.get("initial")
    if init is None:
        return eng.ok(st, TRUE)     # created during the call: counts as changed
    diffs = [znot(P.eq(st, eo.fields["_ignored"], init["_ignored"]))]
    for sd in (0, 1):
        so = st.obj(side_of(st, ent, sd))
        for f in PERSISTED_SIDE_FIELDS:
            diffs.append(znot(P.eq(st, so.fields[f], init[sd][f])))
    st.pending = []
    return eng.ok(st, P.mk_bool(zor(*diffs)))


def _b_flag_with_oid(eng, st, recv, args, kwargs):
    """has_pending_change(ent): some side has a change flag and an oid (the membership rule of the pending set)"""
    ent = args[0]
    cs = []
    for sd in (0, 1):
        so = st.obj(side_of(st, ent, sd))
        cs.append(zand(P.truth(st, so.fields["_changed"]), P.truth(st, so.fields["_oid"])))
    st.pending = []
    return eng.ok(st, P.mk_bool(zor(*cs)))


def _b_in_set(eng, st, recv, args, kwargs):
    """in_set(abstract_set, ent)"""
    return eng.ok(st, P.mk_bool(absset_member(st, args[0], args[1])))


def install_dsl():
    B.BUILTIN_FUNCS["in_set"] = _b_in_set
    B.BUILTIN_FUNCS["all_entries"] = _b_all_entries
    B.BUILTIN_FUNCS["persisted_changed"] = _b_persisted_changed
    B.BUILTIN_FUNCS["has_pending_change"] = _b_flag_with_oid
    B.BUILTIN_FUNCS["calls"] = _b_calls
    B.BUILTIN_FUNCS["effect_names"] = _b_effect_order
    B.BUILTIN_FUNCS["now"] = _b_clock
    B.BUILTIN_FUNCS["provider_calls"] = _b_provider_calls
    B.BUILTIN_FUNCS["provider_writes"] = _b_provider_writes
    B.BUILTIN_FUNCS["notifications"] = _b_notifications
    B.BUILTIN_FUNCS["in_changeset"] = _b_in_changeset
    B.BUILTIN_FUNCS["is_dirty"] = _b_is_dirty


install_dsl()


# ---------------------------------------------------------------------------------------------
# contracts of SyncState lookups (they rely on the index invariant I1/I2 of C11: an entry found
# under an oid / path carries that oid / path on that side)
# ---------------------------------------------------------------------------------------------

def known_entries(st, state_ref):
    return list(st.obj(state_ref).meta.get("entries", []))


def register_entry(st, state_ref, ent):
    so = st.obj(state_ref)
    so.meta = dict(so.meta)
    so.meta["entries"] = list(so.meta.get("entries", [])) + [ent]


def _fresh_entry(eng, st, state_ref, tag):
    return make_entry(eng, st, state_ref, P.fresh_name(tag))


def indexed_entries(st, state_ref):
    idx = st.obj(state_ref).meta.get("indexed", ())
    return [e for e in known_entries(st, state_ref) if e.addr in idx]


def oid_indexed_entries(st, state_ref, sd):
    """entries known to be bound in the oid index of side `sd` under their current oid: assumed live entries and entries
    whose oid on that side was assigned through the _change_oid contract"""
    m = st.obj(state_ref).meta
    idx = m.get("indexed", ())
    idx2 = m.get("indexed_oid", ())
    return [e for e in known_entries(st, state_ref) if e.addr in idx or (e.addr, sd) in idx2]


def _b_assume_indexed(eng, st, recv, args, kwargs):
    """assume_indexed(state, ent): ent is a live entry of the state, i.e. (index invariant I3) it is found by
    lookup_oid / lookup_path under its current oid / path on each side"""
    state, ent = args
    so = st.obj(state)
    so.meta = dict(so.meta)
    so.meta["indexed"] = set(so.meta.get("indexed", ())) | {ent.addr}
    return eng.ok(st, NONE)


B.BUILTIN_FUNCS["assume_indexed"] = _b_assume_indexed


def h_lookup_oid(eng, st, self_v, args, kwargs):
    side, oid = args[0], args[1]
    sd = py_of(side)
    res = []
    # an entry bound in the index under this oid is *the* entry found (I1 + I3)
    bound = oid_indexed_entries(st, self_v, sd)
    bound_addrs = set(e.addr for e in bound)
    owned = zor(*[P.eq(st, side_field(st, e, sd, "oid"), oid) for e in bound])
    # an earlier look-up of this very id found nothing and no entry was given the id since: still nothing
    known_unbound = False
    for usd, uoid in st.obj(self_v).meta.get("unbound_oid", ()):
        if usd == sd:
            same = P.eq(st, uoid, oid)
            if z3.is_true(z3.simplify(same)) or (not z3.is_false(z3.simplify(same)) and not eng.feasible(st, znot(same))):
                known_unbound = True
                break
    # not found
    s0 = st.clone()
    if eng.feasible(s0, znot(owned)):
        s0.assume(znot(owned))
        so0 = s0.obj(self_v)
        so0.meta = dict(so0.meta)
        so0.meta["unbound_oid"] = tuple(so0.meta.get("unbound_oid", ())) + ((sd, oid),)
        res.append((s0, (VAL, NONE)))
    if isinstance(oid, C) and oid.v is None:
        return res
    if known_unbound:
        # only an entry bound since then can be found
        for ent in bound:
            cond = P.eq(st, side_field(st, ent, sd, "oid"), oid)
            if z3.is_false(cond) or not eng.feasible(st, cond):
                continue
            s1 = st.clone()
            s1.assume(cond)
            res.append((s1, (VAL, ent)))
        return res
    # a known entry that carries this oid: the bound one if there is one, otherwise any
    for ent in known_entries(st, self_v):
        cond = P.eq(st, side_field(st, ent, sd, "oid"), oid)
        if ent.addr not in bound_addrs:
            cond = zand(cond, znot(owned))
        if z3.is_false(cond) or not eng.feasible(st, cond):
            continue
        s1 = st.clone()
        s1.assume(cond)
        _mark_oid_bound(s1, self_v, ent, sd)
        res.append((s1, (VAL, ent)))
    # some other entry
    s2 = st
    if not eng.feasible(s2, znot(owned)):
        return res
    s2.assume(znot(owned))
    ent = _fresh_entry(eng, s2, self_v, "found_by_oid")
    so = s2.obj(side_of(s2, ent, sd))
    so.fields["_oid"] = oid
    _mark_oid_bound(s2, self_v, ent, sd)
    res.append((s2, (VAL, ent)))
    return res


def _mark_oid_bound(st, state_ref, ent, sd):
    """the entry was found through the oid index of side sd: it is bound there (a second look-up finds it again)"""
    so = st.obj(state_ref)
    so.meta = dict(so.meta)
    so.meta["indexed_oid"] = set(so.meta.get("indexed_oid", ())) | {(ent.addr, sd)}


def _entries_abslist(eng, st, state_ref, name, constrain):
    """abstract list of entries; `constrain(eng, st, ent) -> bool z3` is assumed of every element"""
    known = []
    for ent in known_entries(st, state_ref):
        known.append(ent)

    def gen(eng_, s_):
        e = _fresh_entry(eng_, s_, state_ref, name)
        return [(s_, e)]

    lst = B.new_abslist(eng, st, gen, name=name, known=known)

    def flt(eng_, s_, v):
        c = constrain(eng_, s_, v)
        s_.pending = []
        if z3.is_false(c) or not eng_.feasible(s_, c):
            return []
        s_.assume(c)
        return [(s_, True)]
    st.obj(lst).meta["filters"].append(flt)
    return lst


def h_lookup_path(eng, st, self_v, args, kwargs):
    side, path = args[0], args[1]
    stale = args[2] if len(args) > 2 else kwargs.get("stale", FALSE)
    sd = py_of(side)
    ig = cls(eng, "cloudsync.types:IgnoreReason")
    ms = {m.name: m.index for m in eng.enum_members(ig.info)}

    def constrain(eng_, s_, ent):
        c = P.eq(s_, side_field(s_, ent, sd, "path"), path)
        if not z3.is_true(P.truth(s_, stale)):
            ign = s_.obj(ent).fields["_ignored"]
            live = zand(*[znot(P.eq(s_, ign, C(m))) for m in eng_.enum_members(ig.info) if m.name in ("DISCARDED", "IRRELEVANT", "CONFLICT")])
            c = zand(c, z3.Or(P.truth(s_, stale), live))
        return c
    lst = _entries_abslist(eng, st, self_v, "by_path", constrain)
    musts = []
    for e in indexed_entries(st, self_v):
        c = zand(constrain(eng, st, e), P.truth(st, side_field(st, e, sd, "oid")))
        st.pending = []
        if not z3.is_false(c):
            musts.append((c, e))
    st.obj(lst).meta["must"] = musts
    return eng.ok(st, lst)


def h_get_all(eng, st, self_v, args, kwargs):
    return eng.ok(st, _entries_abslist(eng, st, self_v, "all", lambda e, s, v: BT))


def _b_set_kids(eng, st, recv, args, kwargs):
    """set_kids(state, kid, rel): for this lemma get_kids yields exactly the one child (kid, rel).  Iterations of the
    loops over get_kids touch only their own child, so one arbitrary child stands for all of them."""
    state, kid, rel = args
    so = st.obj(state)
    so.meta = dict(so.meta)
    so.meta["kids_override"] = (kid, rel)
    return eng.ok(st, NONE)


B.BUILTIN_FUNCS["set_kids"] = _b_set_kids


def h_get_kids(eng, st, self_v, args, kwargs):
    parent_path, side = args[0], args[1]
    sd = py_of(side)
    ov = st.obj(self_v).meta.get("kids_override")
    if ov is not None:
        st.effects.append(Effect("state", "get_kids", [parent_path, side], {}, None))
        return eng.ok(st, st.alloc(HObj("list", "list", items=[T([ov[0], ov[1]])])))
    known = known_entries(st, self_v)

    def gen(eng_, s_):
        e = _fresh_entry(eng_, s_, self_v, "kid")
        rel = P.fresh("str", "kid.rel")
        s_.axiom(z3.Length(rel.t) > 0)
        return [(s_, T([e, rel]))]
    pairs = []
    for k in known:
        rel = P.fresh("str", "kid.rel")
        st.axiom(z3.Length(rel.t) > 0)
        pairs.append(T([k, rel]))
    lst = B.new_abslist(eng, st, gen, name="kids", known=pairs)

    def flt(eng_, s_, v):
        c = P.truth(s_, side_field(s_, v.items[0], sd, "path"))
        s_.pending = []
        if not eng_.feasible(s_, c):
            return []
        s_.assume(c)
        return [(s_, True)]
    st.obj(lst).meta["filters"].append(flt)
    return eng.ok(st, lst)


def h_lookup_creation_deletion(eng, st, self_v, args, kwargs):
    res = [(st.clone(), (VAL, NONE))]
    for ent in known_entries(st, self_v):
        res.append((st.clone(), (VAL, ent)))
    e = _fresh_entry(eng, st, self_v, "match")
    res.append((st, (VAL, e)))
    return res


def havoc_side(eng, st, ent, side, tag="havoc"):
    """all provider-derived fields of one side become arbitrary (type invariants kept)"""
    so = st.obj(side_of(st, ent, side))
    n = P.fresh_name("%s.%s" % (tag, so.meta.get("prefix")))
    ckind = z3.Int(n + ".changed?kind")
    st.axiom(z3.And(ckind >= 0, ckind <= 2))
    ch = z3.Real(n + ".changed")
    st.axiom(ch > 0)
    so.fields.update({
        "_otype": fresh_enum(eng, st, "cloudsync.types:OType", n + ".otype"),
        "_hash": opt(n + ".hash", named("Hash", n + ".hash")),
        "_changed": mk_union([(ckind == 0, NONE), (ckind == 1, C(0)), (ckind == 2, S("real", ch))]),
        "_path": opt(n + ".path", named("str", n + ".path")),
        "_oid": opt(n + ".oid", named("str", n + ".oid")),
        "_exists": fresh_enum(eng, st, "cloudsync.sync.state:Exists", n + ".exists"),
        "_size": opt(n + ".size", named("int", n + ".size")),
        "_mtime": opt(n + ".mtime", named("real", n + ".mtime")),
        "_last_gotten": named("real", n + ".last_gotten"),
    })
    st.axiom(z3.Length(z3.String(n + ".oid")) > 0)
    st.touch(so)
    assume_entry_invariants(eng, st, ent)


def h_state_update(eng, st, self_v, args, kwargs):
    """SyncState.update (event intake) as used from the manager: the entries of that side may change arbitrarily"""
    side = args[0] if args else kwargs.get("side")
    sd = py_of(side)
    for ent in known_entries(st, self_v):
        havoc_side(eng, st, ent, sd, "update")
        eo = st.obj(ent)
        eo.fields["_ignored"] = fresh_enum(eng, st, "cloudsync.types:IgnoreReason", P.fresh_name("update.ignored"))
        st.touch(eo)
    kw = dict(kwargs)
    kw["_held"] = st.ghost.get("held", 0)
    st.effects.append(Effect("state", "update", list(args), kw, None))
    return eng.ok(st, NONE)


def h_state_finished(eng, st, self_v, args, kwargs):
    """SyncState.finished(ent): clears force_sync of unchanged sides; if neither side is changed the entry leaves
    the changeset and related positive-priority entries are reset to priority 0"""
    ent = args[0]
    ch = []
    for sd in (0, 1):
        so = st.obj(side_of(st, ent, sd))
        c = P.truth(st, so.fields["_changed"])
        ch.append(c)
        so.fields["_force_sync"] = ite(c, so.fields["_force_sync"], FALSE)
        st.touch(so)
    st.pending = []
    cs = st.obj(self_v).fields["_changeset_storage"]
    mem = absset_member(st, cs, ent)
    cso = st.obj(cs)
    mm = dict(cso.meta["members"])
    mm[ent.addr] = z3.If(z3.Or(*ch), mem, False)
    cso.meta = dict(cso.meta)
    cso.meta["members"] = mm
    st.touch(cso)
    for other in known_entries(st, self_v):
        if other.addr == ent.addr:
            continue
        oo = st.obj(other)
        keep = z3.Bool(P.fresh_name("finished.prio.kept"))
        oo.fields["_priority"] = ite(keep, oo.fields["_priority"], C(0))
        st.touch(oo)
    st.effects.append(Effect("state", "finished", [ent], {}, None))
    return eng.ok(st, NONE)


def h_storage_commit(eng, st, self_v, args, kwargs):
    st.effects.append(Effect("state", "storage_commit", [], {"_held": st.ghost.get("held", 0)}, None))
    ds = st.obj(st.obj(self_v).fields["_dirtyset"])
    ds.meta = dict(ds.meta)
    ds.meta["members"] = {a: BF for a in ds.meta["members"]}
    st.touch(ds)
    return eng.ok(st, NONE)


def h_debug_sig(eng, st, self_v, args, kwargs):
    return eng.ok(st, P.fresh("str", "sig"))


def h_pretty(eng, st, self_v, args, kwargs):
    return eng.ok(st, P.fresh("str", "pretty"))


def h_get_latest(eng, st, self_v, args, kwargs):
    """SyncEntry.get_latest(force=False, sides=(0,1)): each listed side may be refreshed from its provider
    (info_oid logged as a read); refreshed fields become arbitrary"""
    ent = self_v
    sides = kwargs.get("sides", args[1] if len(args) > 1 else T([C(0), C(1)]))
    st.effects.append(Effect("entry", "get_latest", [ent, T(eng.iter_concrete(st, sides))], {}, None))
    for sv in eng.iter_concrete(st, sides):
        sd = py_of(sv)
        did = z3.Bool(P.fresh_name("get_latest.%d.did" % sd))
        so = st.obj(side_of(st, ent, sd))
        before = dict(so.fields)
        havoc_side(eng, st, ent, sd, "latest")
        so = st.obj(side_of(st, ent, sd))
        for k in list(so.fields):
            if k in before and so.fields[k] is not before[k]:
                if k == "_oid":
                    so.fields[k] = before[k]          # refreshing never changes the oid
                else:
                    so.fields[k] = ite(did, so.fields[k], before[k])
        st.effects.append(Effect(sd, "info_oid", [before["_oid"]], {}, None, tag=did))
    return eng.ok(st, NONE)


def _post_init_entry(eng, st, ent):
    parent = st.obj(ent).fields.get("_parent")
    if isinstance(parent, R):
        register_entry(st, parent, ent)
    st.obj(ent).meta = dict(st.obj(ent).meta)
    st.obj(ent).meta.setdefault("prefix", "new%d" % ent.addr)
    for sd in (0, 1):
        so = st.obj(side_of(st, ent, sd))
        so.meta = dict(so.meta)
        so.meta.setdefault("prefix", "new%d[%d]" % (ent.addr, sd))


def make_stub(name, results=("FINISHED", "PUNT", "REQUEUE"), may_raise=True, havoc=True):
    """opaque stand-in for a callee verified by its own lemmas: logs the call, may change every known entry,
    returns any of `results` or raises any cloud exception"""
    short = name.split(".")[-1]

    def h(eng, st, self_v, args, kwargs):
        res = []
        state = None
        if isinstance(self_v, R):
            state = st.obj(self_v).fields.get("state")
        kw = dict(kwargs)
        kw["_held"] = st.ghost.get("held", 0)
        eff = Effect("mgr", short, list(args), kw, None)
        st.effects.append(eff)
        if havoc and state is not None:
            for ent in known_entries(st, state):
                for sd in (0, 1):
                    havoc_side(eng, st, ent, sd, short)
                eo = st.obj(ent)
                eo.fields["_ignored"] = fresh_enum(eng, st, "cloudsync.types:IgnoreReason", P.fresh_name(short + ".ignored"))
                eo.fields["_priority"] = named("real", P.fresh_name(short + ".priority"))
                st.touch(eo)
        eff.tag = BT
        if may_raise:
            s2 = st.clone()
            # the raising outcome gets its own log record (ok = False); the record above belongs to the returning outcome
            s2.effects = list(s2.effects)
            s2.effects[-1] = Effect("mgr", short, list(args), kw, None, tag=BF)
            allowed = [cls(eng, "cloudsync.exceptions:" + n) for n in CLOUD_EXC] + [ClassRef("Exception")]
            ex = eng.sym_exc(s2, allowed, prefix=short + ".exc")
            res.append((s2, (RAISE, ex)))
        vals = {"FINISHED": C(1), "PUNT": C(0), "REQUEUE": C(-1), "None": NONE, "True": TRUE, "False": FALSE}
        k = z3.Int(P.fresh_name(short + ".ret"))
        st.axiom(z3.And(k >= 0, k < len(results)))
        out = []
        for i, rname in enumerate(results):
            if rname == "entry":
                out.append((k == i, _fresh_entry(eng, st, state, short + ".ent")))
            elif rname == "str":
                out.append((k == i, P.fresh("str", short + ".str")))
            elif rname == "triple":
                # (old id, new id, new path) or three Nones
                some = z3.Bool(P.fresh_name(short + ".moved"))
                a_, b_, c_ = P.fresh("str", short + ".old"), P.fresh("str", short + ".new"), P.fresh("str", short + ".path")
                for t_ in (a_, b_, c_):
                    st.axiom(z3.Length(t_.t) > 0)
                out.append((zand(k == i, some), T([a_, b_, c_])))
                out.append((zand(k == i, znot(some)), T([NONE, NONE, NONE])))
            elif rname == "str_pair":
                out.append((k == i, T([P.fresh("str", short + ".a"), P.fresh("str", short + ".b")])))
            else:
                out.append((k == i, vals[rname]))
        rv = mk_union(out)
        eff.result = rv
        res.append((st, (VAL, rv)))
        return res
    return h


def _stub_returned(e):
    return e.result is not None


def install_state_lookups(eng):
    eng.post_init["cloudsync.sync.state:SyncEntry"] = _post_init_entry
    H = eng.handlers
    H["cloudsync.sync.state:SyncState.lookup_oid"] = h_lookup_oid
    H["cloudsync.sync.state:SyncState.lookup_path"] = h_lookup_path
    H["cloudsync.sync.state:SyncState.get_all"] = h_get_all
    H["cloudsync.sync.state:SyncState.get_kids"] = h_get_kids
    H["cloudsync.sync.state:SyncState.lookup_creation"] = h_lookup_creation_deletion
    H["cloudsync.sync.state:SyncState.lookup_deletion"] = h_lookup_creation_deletion
    H["cloudsync.sync.state:SyncState.update"] = h_state_update
    H["cloudsync.sync.state:SyncState.finished"] = h_state_finished
    H["cloudsync.sync.state:SyncState.storage_commit"] = h_storage_commit
    H["cloudsync.sync.state:SyncState.pretty_print"] = h_pretty
    H["cloudsync.sync.state:SyncState.pretty_log_state_table_diffs"] = lambda e, s, v, a, k: e.ok(s, NONE)
    H["cloudsync.sync.state:SyncEntry.get_latest"] = h_get_latest
    H["cloudsync.utils:debug_sig"] = h_debug_sig
    H["cloudsync.sync.state:SyncEntry.__repr__"] = h_pretty
    H["cloudsync.sync.state:SyncEntry.__str__"] = h_pretty


def fresh_side_field(eng, st, fname, n):
    if fname == "_otype":
        return fresh_enum(eng, st, "cloudsync.types:OType", n + ".otype")
    if fname in ("_hash", "_sync_hash"):
        return opt(n + "." + fname, named("Hash", n + "." + fname))
    if fname == "_changed":
        ckind = z3.Int(n + ".changed?kind")
        st.axiom(z3.And(ckind >= 0, ckind <= 3))
        ch = z3.Real(n + ".changed")
        st.axiom(ch > 0)
        return mk_union([(ckind == 0, NONE), (ckind == 1, C(0)), (ckind == 2, S("real", ch)), (ckind == 3, FALSE)])
    if fname in ("_path", "_sync_path", "_temp_file"):
        return opt(n + "." + fname, named("str", n + "." + fname))
    if fname == "_oid":
        st.axiom(z3.Length(z3.String(n + "._oid")) > 0)
        return opt(n + "._oid", named("str", n + "._oid"))
    if fname == "_exists":
        return fresh_enum(eng, st, "cloudsync.sync.state:Exists", n + ".exists")
    if fname == "_saved_exists":
        return mk_union([(z3.Bool(n + ".saved?none"), NONE),
                         (znot(z3.Bool(n + ".saved?none")), fresh_enum(eng, st, "cloudsync.sync.state:Exists", n + ".saved_exists"))])
    if fname == "_force_sync":
        return named("bool", n + ".force_sync")
    if fname == "_size":
        return opt(n + ".size", named("int", n + ".size"))
    if fname in ("_mtime",):
        return opt(n + ".mtime", named("real", n + ".mtime"))
    if fname == "_last_gotten":
        return named("real", n + ".last_gotten")
    return None


def auto_havoc_object(eng, st, addr, fields=None):
    """make the written fields of a heap object written inside an abstract loop arbitrary (by kind)"""
    o = st.heap.get(addr)
    if o is None:
        return
    tag = o.meta.get("tag")
    if tag == "sidestate":
        ent = R(o.meta["entry"])
        names = list(o.fields) if (not fields or None in fields) else [f for f in fields if f in o.fields]
        n = P.fresh_name("loop." + str(o.meta.get("prefix")))
        for f in names:
            v = fresh_side_field(eng, st, f, n)
            if v is not None:
                o.fields[f] = v
        st.touch(o)
        assume_entry_invariants(eng, st, ent)
        return
    if tag == "entry":
        n = P.fresh_name("loop." + str(o.meta.get("prefix")))
        names = list(o.fields) if (not fields or None in fields) else fields
        if "_ignored" in names:
            o.fields["_ignored"] = fresh_enum(eng, st, "cloudsync.types:IgnoreReason", n + ".ignored")
        if "_priority" in names:
            o.fields["_priority"] = named("real", n + ".priority")
        if "_storage_id" in names:
            o.fields["_storage_id"] = opt(n + ".storage_id", named("int", n + ".storage_id"))
        st.touch(o)
        return
    if tag == "absset":
        o.meta = dict(o.meta)
        o.meta["members"] = {a: z3.Bool(P.fresh_name("loop.member")) for a in o.meta["members"]}
        st.touch(o)
        return
    if o.kind == "list":
        # a list appended to inside the loop: unknown contents, non-empty after at least one append
        n = z3.Int(P.fresh_name("len_looplist"))
        st.axiom(n >= 0)
        items = list(o.items)
        o.kind = "abslist"
        o.meta = {"length": n, "nonempty": n > 0, "gen": (lambda e, s: [(s, P.fresh("Foreign", "looplist.item"))]),
                  "filters": [], "name": "looplist", "known": items}
        o.items = []
        st.touch(o)
        return
    if o.kind == "abslist":
        return
    if tag in ("state", "manager", "world", "index"):
        return
    if o.kind == "obj" and fields and None not in fields:
        for f in fields:
            if f in o.fields:
                o.fields[f] = havoc_value(eng, st, o.fields[f], f)
        st.touch(o)
        return
    raise OutOfSubset("abstract loop writes an object the verifier cannot havoc (kind %s, tag %s)" % (o.kind, tag))


def value_kind(v):
    """a coarse type signature used to merge the example values of a loop variable"""
    if isinstance(v, C):
        return ("C", type(v.v).__name__)
    if isinstance(v, (S, O)):
        return (type(v).__name__, v.sort)
    if isinstance(v, R):
        return ("R", v.addr)
    if isinstance(v, T):
        return ("T", tuple(value_kind(x) for x in v.items))
    if isinstance(v, U):
        return ("U", tuple(sorted(set(str(value_kind(b)) for _, b in v.alts))))
    return ("?", type(v).__name__)


def havoc_examples(eng, st, examples, name):
    """an arbitrary value of any of the kinds seen in `examples` (initial value and values assigned in a probe iteration)"""
    flat = []
    for v in examples:
        for _, b in alts(v):
            flat.append(b)
    seen, picks = set(), []
    for b in flat:
        k = value_kind(b)
        if k not in seen:
            seen.add(k)
            picks.append(b)
    if len(picks) == 1:
        return havoc_value(eng, st, picks[0], name)
    sel = z3.Int(P.fresh_name("loopvar." + name + "?kind"))
    st.axiom(z3.And(sel >= 0, sel < len(picks)))
    return mk_union([(sel == i, havoc_value(eng, st, b, name)) for i, b in enumerate(picks)])


def havoc_value(eng, st, v, name):
    """an arbitrary value of the same kind as v (for locals assigned inside an abstract loop)"""
    n = P.fresh_name("loopvar." + name)
    if isinstance(v, C):
        x = v.v
        if isinstance(x, bool):
            return named("bool", n)
        if isinstance(x, int):
            return named("int", n)
        if x is None:
            return opt(n, P.fresh("Foreign", n))
        if isinstance(x, str):
            return named("str", n)
    if isinstance(v, S):
        return named({"bool": "bool", "int": "int", "real": "real", "str": "str"}[v.sort], n)
    if isinstance(v, R):
        return v
    if isinstance(v, O):
        return P.fresh(v.sort, n)
    if isinstance(v, T):
        return T([havoc_value(eng, st, x, name) for x in v.items])
    if isinstance(v, U):
        return mk_union([(z3.Int(n + "?alt") == i, havoc_value(eng, st, b, name) if not isinstance(b, R) else b)
                         for i, (g, b) in enumerate(v.alts)])
    raise OutOfSubset("cannot havoc loop variable %s of value %r" % (name, v))


def h_make_temp_file(eng, st, self_v, args, kwargs):
    """SyncManager.make_temp_file(ss): for a non-directory side state, ss.temp_file is a non-empty path afterwards
    (named from the path and hash so that it is stable between runs); no provider call"""
    ss = args[0]
    so = st.obj(ss)
    is_dir = P.eq(st, so.fields["_otype"], enum_member(eng, "cloudsync.types:OType", "DIRECTORY"))
    t = P.fresh("str", "temp_file")
    st.axiom(z3.Length(t.t) > 0)
    so.fields["_temp_file"] = ite(is_dir, so.fields["_temp_file"], t)
    st.touch(so, "_temp_file")
    return eng.ok(st, NONE)


def h_clean_temp(eng, st, self_v, args, kwargs):
    so = st.obj(self_v)
    kept = z3.Bool(P.fresh_name("clean_temp.kept"))
    so.fields["_temp_file"] = ite(kept, so.fields["_temp_file"], NONE)
    st.touch(so, "_temp_file")
    return eng.ok(st, NONE)


def install_temp_contracts(eng):
    eng.handlers["cloudsync.sync.manager:SyncManager.make_temp_file"] = h_make_temp_file
    eng.handlers["cloudsync.sync.state:SideState.clean_temp"] = h_clean_temp


def _resolver_call(eng, st, fv, args, kwargs):
    """The application's conflict resolver: an arbitrary callable.  Behaviours enumerated (one path each):
    picks either handle x keep, returns new merged data x keep, returns None, a non-tuple, a tuple of the wrong
    length, a tuple whose first element is not file-like, raises CloudTemporaryError, raises another exception."""
    st.effects.append(Effect("app", "resolve_conflict", list(args), {}, None))
    res = []
    keep = P.fresh("bool", "resolver.keep")

    only = (eng.ghost_cfg or {}).get("resolver")      # case split by configuration: one behaviour per generation task

    def out(s, v, beh):
        if only is not None and beh != only:
            return
        s.ghost["resolver_behaviour"] = beh
        res.append((s, (VAL, v)))
    for i, a in enumerate(args[:2]):
        out(st.clone(), T([a, keep]), "pick%d" % i)
    s = st.clone()
    noop = lambda e, s_, r, a, k: e.ok(s_, NONE)
    merged = s.alloc(HObj("opaque", None, meta={"tag": "merged_fh", "methods": {"read": noop, "close": noop, "seek": noop}}))
    out(s, T([merged, keep]), "merged")
    out(st.clone(), NONE, "none")
    out(st.clone(), C(5), "non-tuple")
    out(st.clone(), T([args[0], keep, C(1)]), "wrong-length")
    out(st.clone(), T([C(5), keep]), "not-file-like")
    if only is None or only == "raise-temporary":
        s = st.clone()
        s.ghost["resolver_behaviour"] = "raise-temporary"
        res.append((s, (RAISE, eng.new_exc(s, cls(eng, "cloudsync.exceptions:CloudTemporaryError")))))
    if only is None or only == "raise-other":
        s = st
        s.ghost["resolver_behaviour"] = "raise-other"
        others = [ClassRef("Exception"), ClassRef("ValueError"), cls(eng, "cloudsync.exceptions:CloudFileNotFoundError"),
                  cls(eng, "cloudsync.exceptions:CloudException")]
        res.append((s, (RAISE, eng.sym_exc(s, others, prefix="resolver.exc"))))
    return res


def _b_resolver_behaviour(eng, st, recv, args, kwargs):
    return eng.ok(st, C(st.ghost.get("resolver_behaviour", "not-called")))


B.BUILTIN_FUNCS["resolver_behaviour"] = _b_resolver_behaviour


def h_split(eng, st, self_v, args, kwargs):
    """contract of SyncState.split(ent): the LOCAL side state moves to a new entry `replace_ent`; `ent` keeps its
    REMOTE side and gets a cleared LOCAL side; both moved sides are marked changed and forget their sync_path.
    Returns (ent, REMOTE, replace_ent, LOCAL).  Precondition: ent[LOCAL].oid is set (asserted by the code)."""
    ent = args[0]
    lo = st.obj(side_of(st, ent, 0))
    has_oid = P.truth(st, lo.fields["_oid"])
    st.pending = []
    res = []
    for s, b in eng.branch(st, has_oid):
        if not b:
            res.append(eng.raise_new(s, "AssertionError", "split: ent[replace].oid"))
            continue
        new = make_entry(eng, s, self_v, P.fresh_name("split.replace"))
        nlo = s.obj(side_of(s, new, 0))
        olo = s.obj(side_of(s, ent, 0))
        for f in ("_otype", "_hash", "_sync_hash", "_path", "_oid", "_exists", "_force_sync", "_temp_file", "_size",
                  "_mtime", "_saved_exists", "_last_gotten"):
            nlo.fields[f] = olo.fields[f]
        nlo.fields["_sync_path"] = NONE
        t1 = z3.Real(P.fresh_name("split.changed.replace"))
        t2 = z3.Real(P.fresh_name("split.changed.defer"))
        s.axiom(z3.And(t1 > 0, t2 > t1))
        nlo.fields["_changed"] = S("real", t1)
        nro = s.obj(side_of(s, new, 1))
        nro.fields.update({"_oid": NONE, "_path": NONE, "_sync_path": NONE, "_sync_hash": NONE, "_hash": NONE,
                           "_changed": NONE, "_exists": enum_member(eng, "cloudsync.sync.state:Exists", "UNKNOWN")})
        no = s.obj(new)
        no.fields["_ignored"] = enum_member(eng, "cloudsync.types:IgnoreReason", "NONE")
        no.fields["_storage_id"] = NONE
        # defer entry: LOCAL cleared, REMOTE marked changed and unsynced
        olo.fields.update({"_exists": enum_member(eng, "cloudsync.sync.state:Exists", "UNKNOWN"), "_changed": NONE,
                           "_hash": NONE, "_sync_hash": NONE, "_sync_path": NONE, "_path": NONE, "_oid": NONE,
                           "_size": NONE, "_mtime": NONE})
        s.touch(olo)
        oro = s.obj(side_of(s, ent, 1))
        oro.fields["_changed"] = S("real", t2)
        oro.fields["_sync_path"] = NONE
        s.touch(oro)
        for e2 in (ent, new):
            cs = s.obj(s.obj(self_v).fields["_changeset_storage"])
            ds = s.obj(s.obj(self_v).fields["_dirtyset"])
            for o_ in (cs, ds):
                mm = dict(o_.meta["members"])
                mm[e2.addr] = z3.Bool(P.fresh_name("split.member")) if o_ is cs else BT
                o_.meta = dict(o_.meta)
                o_.meta["members"] = mm
                s.touch(o_)
        s.effects.append(Effect("state", "split", [ent], {}, None))
        res.append((s, (VAL, T([ent, C(1), new, C(0)]))))
    return res


def install_split_contract(eng):
    eng.handlers["cloudsync.sync.state:SyncState.split"] = h_split


# ---------------------------------------------------------------------------------------------
# Runnable.run: the work function `do` as an arbitrary callee
# ---------------------------------------------------------------------------------------------

def h_runnable_do(eng, st, self_v, args, kwargs):
    """Runnable.do (abstract): any of -- returns having done something; returns after nothing_happened();
    asks for a back-off (raises _BackoffError); raises any Exception; raises a BaseException."""
    o = st.obj(self_v)
    before = o.fields.get("in_backoff", C(Fraction(0)))
    res = []

    def log(s, kind):
        s.effects.append(Effect("runnable", "do", [before, C(kind)], {}, None))
    s = st.clone()
    log(s, "did-something")
    res.append((s, (VAL, NONE)))
    s = st.clone()
    log(s, "nothing-happened")
    s.obj(self_v).fields["_Runnable__clear_on_success"] = FALSE
    s.touch(s.obj(self_v), "_Runnable__clear_on_success")
    res.append((s, (VAL, NONE)))
    s = st.clone()
    log(s, "backoff")
    res.append((s, (RAISE, eng.new_exc(s, cls(eng, "cloudsync.runnable:_BackoffError")))))
    s = st.clone()
    log(s, "exception")
    res.append((s, (RAISE, eng.sym_exc(s, [ClassRef("Exception"), ClassRef("ValueError"), ClassRef("OSError"),
                                           cls(eng, "cloudsync.exceptions:CloudTemporaryError")], prefix="do.exc"))))
    s = st
    log(s, "base-exception")
    res.append((s, (RAISE, eng.sym_exc(s, [ClassRef("KeyboardInterrupt"), ClassRef("SystemExit"), ClassRef("GeneratorExit")],
                                       prefix="do.bexc"))))
    return res


def h_time_helper(eng, st, self_v, args, kwargs):
    """runnable.time_helper(timeout): yields True an unknown number of times (eager abstraction of the generator)"""
    lst = B.new_abslist(eng, st, lambda e, s: [(s, TRUE)], name="ticks")
    if args and isinstance(args[0], C) and args[0].v is None:
        st.axiom(st.obj(lst).meta["nonempty"])       # no timeout: the generator never ends, so there is a first tick
    return eng.ok(st, lst)


def h_interruptable_sleep(eng, st, self_v, args, kwargs):
    st.effects.append(Effect("runnable", "interruptable_sleep", list(args), {}, None))
    return eng.ok(st, NONE)


def h_done(eng, st, self_v, args, kwargs):
    st.effects.append(Effect("runnable", "done", [], {}, None))
    return eng.ok(st, NONE)


def install_runnable_models(eng):
    eng.handlers["cloudsync.runnable:Runnable.do"] = h_runnable_do
    eng.handlers["cloudsync.runnable:time_helper"] = h_time_helper
    eng.handlers["cloudsync.runnable:Runnable.interruptable_sleep"] = h_interruptable_sleep
    eng.handlers["cloudsync.runnable:Runnable.done"] = h_done


from fractions import Fraction  # noqa: E402


# ---------------------------------------------------------------------------------------------
# EventManager fixtures
# ---------------------------------------------------------------------------------------------

def h_cursor_prop(name):
    def h(eng, st, self_v, args, kwargs):
        o = st.obj(self_v)
        side = o.meta.get("side")
        if args:     # setter: handing a cursor to the provider may be rejected
            res = []
            s2 = st.clone()
            allowed = [cls(eng, "cloudsync.exceptions:" + n) for n in ("CloudCursorError", "CloudDisconnectedError", "CloudTokenError", "CloudTemporaryError")]
            ex = eng.sym_exc(s2, allowed, prefix="set_cursor.exc")
            s2.effects.append(Effect(side, "set_" + name, list(args), {}, None, tag=BF))
            res.append((s2, (RAISE, ex)))
            st.effects.append(Effect(side, "set_" + name, list(args), {}, None, tag=BT))
            o.fields["_cursor_value"] = args[0]
            st.touch(o, "_cursor_value")
            res.append((st, (VAL, NONE)))
            return res
        if name == "current_cursor" and "_cursor_value" in o.fields:
            v = o.fields["_cursor_value"]
        else:
            v = opt(P.fresh_name("%s.%s" % (o.meta.get("name"), name)), P.fresh("Cursor", "%s.%s" % (o.meta.get("name"), name)))
        st.effects.append(Effect("cursor", "get_" + name, [], {}, v))
        return eng.ok(st, v)
    return h


def h_events(eng, st, self_v, args, kwargs):
    o = st.obj(self_v)
    side = o.meta.get("side")

    def gen(eng_, s_):
        return [(s_, new_event(eng_, s_, "event"))]
    lst = B.new_abslist(eng, st, gen, name="events")
    st.effects.append(Effect(side, "events", [], {}, lst))
    return eng.ok(st, lst)


def new_event(eng, st, prefix):
    p = P.fresh_name(prefix)
    ex = z3.Int(p + ".exists?kind")
    st.axiom(z3.And(ex >= 0, ex <= 2))
    fields = {
        "otype": fresh_enum(eng, st, "cloudsync.types:OType", p + ".otype"),
        "oid": opt(p + ".oid", named("str", p + ".oid")),
        "path": opt(p + ".path", named("str", p + ".path")),
        "hash": opt(p + ".hash", named("Hash", p + ".hash")),
        "exists": mk_union([(ex == 0, NONE), (ex == 1, TRUE), (ex == 2, FALSE)]),
        "mtime": opt(p + ".mtime", named("real", p + ".mtime")),
        "prior_oid": opt(p + ".prior_oid", named("str", p + ".prior_oid")),
        "new_cursor": NONE, "accurate": named("bool", p + ".accurate"), "size": named("int", p + ".size"),
    }
    st.axiom(z3.Length(z3.String(p + ".oid")) > 0)
    return st.alloc(HObj("obj", cls(eng, "cloudsync.event:Event"), fields=fields, meta={"dataclass": True, "tag": "event"}))


def h_dc_replace(eng, st, recv, args, kwargs):
    src = args[0]
    o = st.obj(src)
    n = o.copy()
    n.meta = dict(o.meta)
    for k, v in kwargs.items():
        n.fields[k] = v
    return eng.ok(st, st.alloc(n))


B.BUILTIN_FUNCS["dataclasses.replace"] = h_dc_replace


def _state_effect(name):
    def h(eng, st, self_v, args, kwargs):
        eff = Effect("state", name, list(args), {"_held": st.ghost.get("held", 0)}, None)
        st.effects.append(eff)
        if name == "storage_get_data":
            v = opt(P.fresh_name("stored"), P.fresh("Cursor", "stored"))
            eff.result = v
            return eng.ok(st, v)
        return eng.ok(st, NONE)
    return h


def h_walk_oid(eng, st, self_v, args, kwargs):
    """Provider.walk_oid(oid): an arbitrary sequence of events for existing objects, or a cloud exception (raised here at
    the call; the real generator raises while iterating, which is inside the same try block at its only call site)"""
    o = st.obj(self_v)
    side = o.meta.get("side")
    res = []
    s2 = st.clone()
    allowed = [cls(eng, "cloudsync.exceptions:" + n) for n in CLOUD_EXC] + [ClassRef("Exception")]
    s2.effects.append(Effect(side, "walk_oid", list(args), {}, None, tag=BF))
    res.append((s2, (RAISE, eng.sym_exc(s2, allowed, prefix="walk_oid.exc"))))

    def gen(eng_, s_):
        return [(s_, new_event(eng_, s_, "walked"))]
    lst = B.new_abslist(eng, st, gen, name="walked")
    st.effects.append(Effect(side, "walk_oid", list(args), {}, lst, tag=BT))
    res.append((st, (VAL, lst)))
    return res


def install_event_models(eng):
    eng.handlers["cloudsync.provider:Provider.walk_oid"] = h_walk_oid
    eng.handlers["cloudsync.provider:Provider.current_cursor"] = h_cursor_prop("current_cursor")
    eng.handlers["cloudsync.provider:Provider.latest_cursor"] = h_cursor_prop("latest_cursor")
    eng.handlers["cloudsync.provider:Provider.events"] = h_events
    for nm in ("storage_get_data", "storage_update_data", "storage_delete_tag"):
        eng.handlers["cloudsync.sync.state:SyncState." + nm] = _state_effect(nm)


def make_event_manager(eng, st, w, side):
    ecls = cls(eng, "cloudsync.event:EventManager")
    pre = "em%d" % side
    fields = {
        "provider": w.fields["providers"].items[side], "state": w.fields["state"], "side": C(side),
        "_EventManager__nmgr": w.fields["nmgr"], "_queue": st.alloc(HObj("list", "list", items=[])),
        "need_auth": named("bool", pre + ".need_auth"),
        "cursor": opt(pre + ".cursor", named("Cursor", pre + ".cursor")),
        "_cursor_tag": named("str", pre + "._cursor_tag"), "_walk_tag": opt(pre + "._walk_tag", named("str", pre + "._walk_tag")),
        "need_walk": named("bool", pre + ".need_walk"),
        "_root_path": opt(pre + "._root_path", named("str", pre + "._root_path")),
        "_root_oid": opt(pre + "._root_oid", named("str", pre + "._root_oid")),
        "_root_validated": named("bool", pre + "._root_validated"), "_first_do": named("bool", pre + "._first_do"),
        "label": named("str", pre + ".label"),
        "in_backoff": named("real", pre + ".in_backoff"),
        "_Runnable__shutdown": named("bool", pre + ".shutdown"), "_Runnable__stopping": named("bool", pre + ".stopping"),
        "_Runnable__stopped": named("bool", pre + ".stopped"), "_Runnable__clear_on_success": TRUE,
        "_Runnable__interrupt": NONE, "_Runnable__thread": NONE, "service_name": C("events"), "_run_until": NONE,
        "reauthenticate": st.alloc(HObj("opaque", None, meta={"tag": "reauth", "call": _reauth_call})),
    }
    return st.alloc(HObj("obj", ecls, fields=fields, meta={"tag": "event_manager"}))


def _reauth_call(eng, st, fv, args, kwargs):
    res = []
    s2 = st.clone()
    s2.effects.append(Effect("app", "reauthenticate", [], {}, None, tag=BF))
    res.append((s2, (RAISE, eng.sym_exc(s2, [ClassRef("NotImplementedError"), cls(eng, "cloudsync.exceptions:CloudTokenError")], prefix="reauth.exc"))))
    st.effects.append(Effect("app", "reauthenticate", [], {}, None, tag=BT))
    res.append((st, (VAL, NONE)))
    return res


def h_sorted_abslist(eng, st, seq, args, kwargs):
    """sorted(<abstract collection>, key=k): the same elements in an order in which k is non-decreasing.
    The key function is remembered; a loop over the result that leaves at an element e may assume that every
    element known to be in the collection with a strictly smaller key was visited before and fell through."""
    src = args[0]
    if isinstance(src, R) and "iter" in st.obj(src).meta:
        src = st.obj(src).meta["iter"](eng, st, src)
    o = st.obj(src)
    new = HObj("abslist", "list", meta=dict(o.meta))
    new.meta["sorted_key"] = kwargs.get("key")
    st.note("sorted(): a permutation of its argument ordered by the key (model of the builtin)")
    return eng.ok(st, st.alloc(new))


def install_sorted_model(eng):
    eng.handlers["sorted_abslist"] = h_sorted_abslist
