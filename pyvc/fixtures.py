"""Symbolic fixtures: objects handed to lemmas (providers under a path convention, ...)."""
import z3
from .values import (C, S, E, O, R, T, U, NONE, TRUE, FALSE, BT, BF, zand, zor, znot, alts, mk_union, ite,
                     py_of, is_concrete, ClassRef, Builtin)
from . import prims as P
from .prims import OutOfSubset
from .engine import HObj, VAL, RAISE
from . import builtins as B

PROVIDER_CONFIGS = []
for _sep, _alt in (("/", "\\"), ("\\", "/"), ("/", None)):
    for _cs in (True, False):
        for _win in (False, True):
            PROVIDER_CONFIGS.append({
                "name": "sep=%s,alt=%s,cs=%d,win=%d" % ({"/": "fs", "\\": "bs"}[_sep], {"/": "fs", "\\": "bs", None: "none"}[_alt], _cs, _win),
                "sep": _sep, "alt_sep": _alt, "case_sensitive": _cs, "win_paths": _win})


# quick tier: one representative per dimension (default convention; case-insensitive; swapped separators +
# case-insensitive + drive letters; no alternate separator + drive letters).  Thorough tier: all 12.
QUICK_PROVIDER_CONFIGS = (0, 2, 7, 9)
CONFIG_SETS = {}


def provider_class(eng, cfg, base="cloudsync.provider:Provider", extra=None):
    modname, clsname = base.split(":")
    info = eng.repo.module(modname).classes[clsname]
    vals = {"sep": C(cfg["sep"]), "alt_sep": C(cfg["alt_sep"]), "case_sensitive": C(cfg["case_sensitive"]),
            "win_paths": C(cfg["win_paths"])}
    if extra:
        vals.update(extra)
    return ClassRef(B.SynthInfo("Prov<%s>" % cfg["name"], ClassRef(info), vals))


def normpath_fn(cfg):
    return z3.Function("normalize_path<%s>" % cfg["name"], P.StrS, P.BoolS, P.StrS)


def install_normalize_path_model(eng):
    """Provider.normalize_path as a deterministic uninterpreted function of (path, for_display).

    Its body (re.split into an unbounded component list, then join(*parts)) is outside the
    fixed-arity unrolling; the contract used here is only *functionality* (same inputs, same
    output, never raises for str input) -- checked against the body by the bounded stand-in
    `normalize_path_contract`."""
    def h(eng_, st, self_v, args, kwargs):
        path = args[0]
        fd = args[1] if len(args) > 1 else kwargs.get("for_display", FALSE)
        cfg = cfg_of(eng_, st, self_v)
        pn = ""
        if isinstance(self_v, R) and "name" in st.obj(self_v).meta:
            pn = "@" + st.obj(self_v).meta["name"]
        f = z3.Function("normalize_path<%s>%s" % (cfg["name"], pn), P.StrS, P.BoolS, P.StrS)
        out = []
        for g, b in alts(path):
            if not P.is_str(b):
                st.pend(g, "AttributeError", "normalize_path of non-string")
                continue
            out.append((g, S("str", f(P.str_of(b), P.truth(st, fd)))))
        st.note("Provider.normalize_path: opaque deterministic function (body checked by bounded stand-in)")
        if not out:
            return eng_.flush(st, NONE)
        return eng_.prim(st, lambda s: mk_union(out))
    eng.handlers["cloudsync.provider:Provider.normalize_path"] = h


def cfg_of(eng, st, self_v):
    """the path convention of a provider object / class (from its synthetic class constants)"""
    cref = None
    if isinstance(self_v, R):
        cref = B._obj_class(st.obj(self_v))
    elif isinstance(self_v, C) and isinstance(self_v.v, ClassRef):
        cref = self_v.v
    if cref is not None:
        for c in eng.mro(cref):
            if isinstance(c.info, B.SynthInfo):
                v = c.info.values
                name = c.info.name
                return {"name": name[5:-1] if name.startswith("Prov<") else name, "sep": py_of(v["sep"]),
                        "alt_sep": py_of(v["alt_sep"]), "case_sensitive": py_of(v["case_sensitive"]),
                        "win_paths": py_of(v["win_paths"])}
    return eng.config


def nps_fn(cfg):
    return z3.Function("nps<%s>" % cfg["name"], P.StrS, P.StrS)


def nps_contract_axioms(st, cfg, t):
    """Contract of Provider.normalize_path_separators (each clause is a `check` of the lemma
    `nps_contract` in contracts/path_laws.py, proved against the real body)."""
    f = nps_fn(cfg)
    a = f(t)
    sep = z3.StringVal(cfg["sep"])
    st.axiom(z3.Or(a == sep, z3.Not(z3.SuffixOf(sep, a))))
    st.axiom(f(a) == a)
    st.axiom(z3.Length(a) <= z3.Length(t))
    norm = z3.Or(t == sep, z3.Not(z3.SuffixOf(sep, t)))
    if cfg["alt_sep"]:
        alt = z3.StringVal(cfg["alt_sep"])
        st.axiom(z3.Not(z3.Contains(a, alt)))
        norm = z3.And(norm, z3.Not(z3.Contains(t, alt)))
        st.axiom(z3.Implies(z3.PrefixOf(sep, a), z3.Or(z3.PrefixOf(sep, t), z3.PrefixOf(alt, t))))
    else:
        st.axiom(z3.Implies(z3.PrefixOf(sep, a), z3.PrefixOf(sep, t)))
    st.axiom(z3.Implies(norm, a == t))
    for d in (":", "."):
        ds = z3.StringVal(d)
        st.axiom(z3.Contains(a, ds) == z3.Contains(t, ds))
    return a


def install_nps_contract(eng):
    def h(eng_, st, self_v, args, kwargs):
        path = args[0] if args else kwargs["path"]
        cfg = cfg_of(eng_, st, self_v)
        out = []
        for g, b in alts(path):
            if P.is_str(b):
                if isinstance(b, C) and b.v == "":
                    out.append((g, b))
                else:
                    out.append((g, S("str", nps_contract_axioms(st, cfg, P.str_of(b)))))
            elif isinstance(b, C) and (b.v is None or b.v is False):
                out.append((g, b))          # `if path:` is false: returned unchanged
            else:
                st.pend(g, "AttributeError", "normalize_path_separators of a non-string")
        st.note("Provider.normalize_path_separators replaced by its contract (proved by lemma nps_contract)")
        if not out:
            return eng_.flush(st, NONE)
        return eng_.prim(st, lambda s_: mk_union(out))
    eng.handlers["cloudsync.provider:Provider.normalize_path_separators"] = h


OPAQUE_MODELS = {"nps": install_nps_contract, "normalize_path": install_normalize_path_model}


def fx_provider(eng, st, pname):
    cfg = eng.config
    cref = provider_class(eng, cfg)
    r = st.alloc(HObj("obj", cref, fields={}, meta={"tag": "provider", "name": pname}))
    eng.inputs[pname] = "provider:" + cfg["name"]
    return r


def install(eng):
    from . import world
    eng.fixtures["Prov"] = fx_provider
    eng.fixtures["World"] = world.fx_world
    eng.fixtures["CS"] = fx_cloudsync
    from . import sqlmodel
    eng.fixtures["Sqlite"] = sqlmodel.fx_sqlite_storage
    from . import cachefx
    cachefx.install(eng)


def _pc(cs, sep="/", alt="\\", win=False):
    return {"name": "sep=%s,alt=%s,cs=%d,win=%d" % ({"/": "fs", "\\": "bs"}[sep], {"/": "fs", "\\": "bs", None: "none"}[alt], cs, win),
            "sep": sep, "alt_sep": alt, "case_sensitive": cs, "win_paths": win}


CONFIG_SETS["provider_pairs"] = []
for _side in (0, 1):
    for _a, _b, _nm in ((_pc(True), _pc(True), "cs-cs"), (_pc(True), _pc(False), "cs-ci"), (_pc(False), _pc(True), "ci-cs"),
                        (_pc(False), _pc(False), "ci-ci"), (_pc(True, "\\", "/", True), _pc(True), "win-posix")):
        CONFIG_SETS["provider_pairs"].append({"name": "%s,to=%d" % (_nm, _side), "p0": _a, "p1": _b, "side": _side})


def fx_cloudsync(eng, st, pname):
    """a CloudSync object with two providers (possibly of different path conventions) and two root paths"""
    from . import world
    cfg = eng.config
    provs = []
    for i in (0, 1):
        provs.append(world.make_provider(eng, st, i, cfg["p%d" % i]))
    r0 = S("str", z3.String("root0"))
    r1 = S("str", z3.String("root1"))
    ccls = world.cls(eng, "cloudsync.cs:CloudSync")
    r = st.alloc(HObj("obj", ccls, fields={"providers": T(provs), "roots": T([r0, r1])}, meta={"tag": "cloudsync"}))
    eng.inputs["root0"] = "str"
    eng.inputs["root1"] = "str"
    eng.inputs[pname] = "cloudsync:" + cfg["name"]
    return r


CONFIG_SETS["sides"] = [{"name": "changed=0", "changed": 0, "synced": 1}, {"name": "changed=1", "changed": 1, "synced": 0}]
# sides x an exhaustive case split chosen by the lemma (w.case; the lemma's last case is the complement of the others),
# so that the paths of a branchy function are generated by several workers instead of one
CONFIG_SETS["update_cases"] = [{"name": "changed=%d,known=%d,exists=%d,path=%d" % (_c, _kn, _ex, _pa), "changed": _c, "synced": 1 - _c,
                                "known": _kn, "exk": _ex, "has_path": _pa}
                               for _c in (0, 1) for _kn in (0, 1) for _ex in (0, 1, 2) for _pa in (0, 1)]


def _b_cs_side(eng, st, recv, args, kwargs):
    return eng.ok(st, C(eng.config["side"]))


B.BUILTIN_FUNCS["cs_side"] = _b_cs_side


# one generation task per behaviour of the application's resolver (the enumeration in world._resolver_call is exhaustive for
# the wrapper's decision table; the behaviours not listed here are proved equivalent to "none" by safe_call_resolver_table)
CONFIG_SETS["resolver_cases"] = [{"name": "resolver=%s" % b, "resolver": b}
                                 for b in ("pick0", "pick1", "none", "raise-other")]
