"""Concrete counterparts of pyvc.fixtures: real objects built from the repository's classes."""
from pyvc import fixtures as F

FIXTURES = {}
GENERATORS = {}
_classes = {}


def config_for(lemma_fn, cfg_index):
    opts = getattr(lemma_fn, "lemma_opts", {})
    kind = opts.get("configs")
    import inspect
    anns = [p.annotation if isinstance(p.annotation, str) else getattr(p.annotation, "__name__", "") for p in inspect.signature(lemma_fn).parameters.values()]
    if kind is None:
        kind = "providers" if "Prov" in anns else "none"
    if kind == "providers":
        return F.PROVIDER_CONFIGS[cfg_index]
    if kind == "none":
        return None
    return F.CONFIG_SETS[kind][cfg_index]


def provider_class(cfg):
    key = cfg["name"]
    if key not in _classes:
        from cloudsync.provider import Provider
        cls = type("Prov_" + "".join(c if c.isalnum() else "_" for c in key), (Provider,), {
            "sep": cfg["sep"], "alt_sep": cfg["alt_sep"], "case_sensitive": cfg["case_sensitive"],
            "win_paths": cfg["win_paths"], "name": "prov"})
        cls.__abstractmethods__ = frozenset()
        _classes[key] = cls
    return _classes[key]


def fx_provider(cfg, pname, inputs):
    return provider_class(cfg)()


FIXTURES["Prov"] = fx_provider


_cur_cfg = [None]


def fx_cloudsync(cfg, pname, inputs):
    from cloudsync.cs import CloudSync
    cs = CloudSync.__new__(CloudSync)
    # pystrict freezes attribute creation outside __init__: set the fields the lemma reads directly
    object.__setattr__(cs, "providers", (provider_class(cfg["p0"])(), provider_class(cfg["p1"])()))
    object.__setattr__(cs, "roots", (inputs.get("root0", "/"), inputs.get("root1", "/")))
    object.__setattr__(cs, "_verif_side", cfg["side"])
    return cs


def gen_cloudsync(rng, pname):
    from pyvc.concrete import gen_value
    return {"root0": "/" + gen_value(rng, "str", True), "root1": "/" + gen_value(rng, "str", True)}


FIXTURES["CS"] = fx_cloudsync
GENERATORS["CS"] = gen_cloudsync


def fx_sqlite(cfg, pname, inputs):
    """a real SqliteStorage(':memory:') pre-populated with the rows given in inputs['<pname>.rows'] = [(id, tag, bytes)]"""
    from cloudsync.sync.sqlite_storage import SqliteStorage
    s = SqliteStorage(":memory:")
    for rid, tag, blob in inputs.get(pname + ".rows", []):
        s.db.execute("INSERT INTO cloud (id, tag, serialization) VALUES (?, ?, ?)", [rid, tag, blob])
    return s


def gen_sqlite(rng, pname):
    rows = []
    for rid in rng.sample([1, 2, 3, 4, 5], rng.randint(0, 4)):
        rows.append((rid, rng.choice(["a", "b", ""]), rng.choice([b"", b"x", b"\xff\x00", b"y" * 40])))
    return {pname + ".rows": rows}


FIXTURES["Sqlite"] = fx_sqlite
GENERATORS["Sqlite"] = gen_sqlite
