"""Lemma / contract DSL and runner.

A contract file under /verif/contracts is plain Python.  Functions decorated with
`@lemma(props=[...], ...)` are *interpreted symbolically* by pyvc (parameters become symbolic
inputs chosen by their annotation) and *executed by CPython* in replay and bounded mode, with the
same text.  Inside a lemma:

    assume(cond)                  restricts the inputs (precondition)
    check(cond, "name")           proof obligation: cond holds on every path reaching it
    note / cover                  bookkeeping

Any exception escaping a lemma body is itself an obligation failure ("total" lemmas) unless the
lemma lists the class in `raises=`.
"""
import ast
import os
import z3

from .values import (C, S, E, O, R, T, U, NONE, TRUE, FALSE, BT, BF, zand, zor, znot, alts, mk_union, ite,
                     py_of, is_concrete, ClassRef, Builtin, EnumMember)
from . import prims as P
from .prims import OutOfSubset
from .engine import Engine, State, Frame, Obligation, VAL, RAISE, HObj
from . import builtins as B


class LemmaSpec:
    def __init__(self, module, node, opts):
        self.module = module
        self.node = node
        self.name = node.name
        self.props = opts.get("props", [])
        self.opts = opts
        self.params = [(a.arg, ast.unparse(a.annotation) if a.annotation is not None else "str") for a in node.args.args]
        self.doc = ast.get_docstring(node) or ""


def load_lemmas(repo, path):
    name = "contracts." + os.path.splitext(os.path.basename(path))[0]
    mod = repo.load_file(name, path)
    out = []
    for node in mod.tree.body:
        if isinstance(node, ast.FunctionDef):
            for d in node.decorator_list:
                if isinstance(d, ast.Call) and isinstance(d.func, ast.Name) and d.func.id == "lemma":
                    opts = {}
                    for kw in d.keywords:
                        opts[kw.arg] = ast.literal_eval(kw.value)
                    out.append(LemmaSpec(mod, node, opts))
    return out


# ---------------------------------------------------------------------------------------------
# DSL builtins (symbolic side)
# ---------------------------------------------------------------------------------------------

def _assume(eng, st, recv, args, kwargs):
    t = P.truth(st, args[0])
    res = []
    for s, (tag, v) in eng.flush(st, None):
        if tag == RAISE:
            res.append((s, (tag, v)))
            continue
        if eng.feasible(s, t):
            s.assume(t)
            res.append((s, (VAL, NONE)))
    return res


def _check(eng, st, recv, args, kwargs):
    name = py_of(args[1]) if len(args) > 1 else "check@%s" % len(eng.obligations)
    t = P.truth(st, args[0])
    res = []
    for s, (tag, v) in eng.flush(st, None):
        if tag == RAISE:
            res.append((s, (tag, v)))
            continue
        eng.add_obligation(s, name, t)
        if eng.feasible(s, t):
            s.assume(t)
            res.append((s, (VAL, NONE)))
    return res


def _implies(eng, st, recv, args, kwargs):
    a = P.truth(st, args[0])
    b = P.truth(st, args[1])
    return eng.flush(st, P.mk_bool(z3.Implies(a, b)))


def _iff(eng, st, recv, args, kwargs):
    a = P.truth(st, args[0])
    b = P.truth(st, args[1])
    return eng.flush(st, P.mk_bool(a == b))


def _truthy(eng, st, recv, args, kwargs):
    t = P.truth(st, args[0])
    return eng.flush(st, P.mk_bool(t))


def _lower_hom(eng, st, recv, args, kwargs):
    """lower_sep_axiom(x, sep, y): instantiate L(x+sep+y) == L(x)+sep+L(y)."""
    x, c, y = args
    P.lower_concat_axiom(st, P.str_of(x), py_of(c), P.str_of(y))
    return eng.ok(st, NONE)


def _effects(eng, st, recv, args, kwargs):
    return eng.ok(st, T([C(i) for i in range(len(st.effects))]))


def _note(eng, st, recv, args, kwargs):
    return eng.ok(st, NONE)


def _held(eng, st, recv, args, kwargs):
    return eng.ok(st, C(st.ghost.get("held", 0)))


for _n, _f in (("assume", _assume), ("check", _check), ("implies", _implies), ("iff", _iff), ("truthy", _truthy),
               ("lower_sep_axiom", _lower_hom), ("note", _note), ("cover", _note), ("lock_held", _held)):
    B.BUILTIN_FUNCS[_n] = _f
B.BUILTIN_FUNCS["lemma"] = B._noop


# ---------------------------------------------------------------------------------------------
# runner
# ---------------------------------------------------------------------------------------------

class LemmaEngine(Engine):
    def __init__(self, *a, **k):
        super().__init__(*a, **k)
        self.fixtures = {}
        self.base_handlers = {}
        self.opaque_models = {}
        self.config = None
        self.ghost_cfg = {}
        self.check_counts = {}
        self.trivial = 0

    def add_obligation(self, st, name, goal, kind="check"):
        spec = self.cur_lemma
        cfg = self.config_name()
        full = "%s%s::%s" % (spec.name, ("[" + cfg + "]") if cfg else "", name)
        k = (full,)
        self.check_counts[full] = self.check_counts.get(full, 0) + 1
        ob = Obligation(full, tuple(spec.props), list(st.defs) + list(st.pc), goal,
                        where=self.check_counts[full], inputs=dict(self.inputs), kind=kind, lemma=spec.name)
        self.obligations.append(ob)

    def exc_ref(self, name):
        if name.startswith("Cloud"):
            from .world import cls as wcls
            return wcls(self, "cloudsync.exceptions:" + name)
        if name == "_BackoffError":
            from .world import cls as wcls
            return wcls(self, "cloudsync.runnable:_BackoffError")
        return ClassRef(name)

    def config_name(self):
        c = self.config
        if c is None:
            return ""
        return c.get("name", "")

    def make_input(self, st, pname, ann):
        if ann in self.fixtures:
            return self.fixtures[ann](self, st, pname)
        if ann == "str":
            v = S("str", z3.String(pname))
        elif ann == "int":
            v = S("int", z3.Int(pname))
        elif ann == "float":
            v = S("real", z3.Real(pname))
        elif ann == "bool":
            v = S("bool", z3.Bool(pname))
        elif ann in ("opt_str", "Optional[str]"):
            isn = z3.Bool(pname + "?none")
            v = mk_union([(isn, NONE), (znot(isn), S("str", z3.String(pname)))])
        elif ann in ("opt_float", "Optional[float]"):
            isn = z3.Bool(pname + "?none")
            v = mk_union([(isn, NONE), (znot(isn), S("real", z3.Real(pname)))])
        else:
            raise OutOfSubset("no fixture for parameter annotation %s" % ann)
        self.inputs[pname] = ann
        return v

    def run_lemma(self, spec, config=None):
        """Symbolically execute one lemma under one configuration; appends obligations."""
        self.cur_lemma = spec
        self.config = config
        self.inputs = {}
        self.handlers = dict(self.base_handlers)
        for nm in spec.opts.get("opaque", ()):
            self.opaque_models[nm](self)
        self.merge_calls = spec.opts.get("merge", True)
        self.precise_strings = spec.opts.get("precise_strings", spec.module.name.endswith("path_laws"))
        st = State(self)
        fr = Frame(spec.module, None, None)
        st.frames.append(fr)
        for pname, ann in spec.params:
            fr.locals[pname] = self.make_input(st, pname, ann)
        n0 = len(self.obligations)
        outs = self.exec_block(st, spec.node.body)
        allowed = tuple(spec.opts.get("raises", ()))
        for s, (tag, v) in outs:
            if tag == "raise":
                o = s.obj(v)
                cname = o.cls.name if isinstance(o.cls, ClassRef) else "<symbolic>"
                if isinstance(o.cls, ClassRef) and any(self.is_subclass(o.cls, self.exc_ref(a)) for a in allowed):
                    continue
                if not isinstance(o.cls, ClassRef):
                    _, term, classes = o.cls
                    goal = zor(*[term == self.exc_id(c) for c in classes
                                 if any(self.is_subclass(c, self.exc_ref(a)) for a in allowed)])
                    if not z3.is_true(goal):
                        self.add_obligation(s, "only-declared-exceptions", goal, kind="total")
                    continue
                msg = o.meta.get("msg", "")
                self.add_obligation(s, "no-exception:%s(%s)" % (cname, msg[:60]), BF, kind="total")
        return len(self.obligations) - n0, len(outs)
