"""Models of dependencies and opaque contracts for repository functions (installed per lemma)."""
import z3
from .values import (C, S, E, O, R, T, U, NONE, TRUE, FALSE, BT, BF, zand, zor, znot, alts, mk_union, ite, py_of,
                     is_concrete, ClassRef, Builtin)
from . import prims as P
from .prims import OutOfSubset
from .engine import HObj, VAL, RAISE
from . import builtins as B

OPAQUE_MODELS = {}


def install(eng):
    pass
