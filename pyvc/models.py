"""Models of dependencies and opaque contracts for repository functions (installed per lemma)."""
import z3
from .values import (C, S, E, O, R, T, U, NONE, TRUE, FALSE, BT, BF, zand, zor, znot, alts, mk_union, ite, py_of,
                     is_concrete, ClassRef, Builtin)
from . import prims as P
from .prims import OutOfSubset
from .engine import HObj, VAL, RAISE
from . import builtins as B

OPAQUE_MODELS = {}


def install(eng):
    pass


# ---------------------------------------------------------------------------------------------
# msgpack: dumps / loads as a structure-preserving round trip (assumed contract of the dependency,
# conformance-tested on the Hash grammar by pyvc.conformance 'msgpack')
# ---------------------------------------------------------------------------------------------

def _deep_copy(eng, st, v, lists_to_tuples):
    if isinstance(v, R):
        o = st.obj(v)
        if o.kind == "dict":
            d = st.alloc(HObj("dict", "dict"))
            st.obj(d).items = [[k, _deep_copy(eng, st, val, lists_to_tuples), pres] for k, val, pres in o.items]
            return d
        if o.kind == "list":
            items = [_deep_copy(eng, st, x, lists_to_tuples) for x in o.items]
            if lists_to_tuples:
                return T(items)
            return st.alloc(HObj("list", "list", items=items))
        raise OutOfSubset("msgpack of object kind %s" % o.kind)
    if isinstance(v, T):
        return T([_deep_copy(eng, st, x, lists_to_tuples) for x in v.items])
    if isinstance(v, U):
        return mk_union([(g, _deep_copy(eng, st, b, lists_to_tuples)) for g, b in v.alts])
    return v


def _msgpack_dumps(eng, st, recv, args, kwargs):
    """msgpack.dumps(x, use_bin_type=True): an opaque bytes token that remembers x (may raise TypeError for
    unserialisable values -- not modelled: the sync state only stores the Hash grammar)"""
    snap = _deep_copy(eng, st, args[0], False)
    tok = st.alloc(HObj("opaque", None, fields={"packed": snap}, meta={"tag": "packed"}))
    st.note("msgpack.dumps/loads: structure-preserving round trip on the Hash grammar (tuples stay tuples, lists become tuples on load)")
    return eng.ok(st, tok)


def _msgpack_loads(eng, st, recv, args, kwargs):
    tok = args[0]
    if isinstance(tok, R) and st.obj(tok).meta.get("tag") == "packed":
        return eng.ok(st, _deep_copy(eng, st, st.obj(tok).fields["packed"], True))
    raise OutOfSubset("msgpack.loads of bytes that were not produced by msgpack.dumps in this lemma")


B.BUILTIN_FUNCS["msgpack.dumps"] = _msgpack_dumps
B.BUILTIN_FUNCS["msgpack.loads"] = _msgpack_loads
