"""Builtin / dependency models and the object protocol (getattr, setattr, items, calls).

Every model here is a *specification* of a Python builtin or a dependency, an over-approximation
that is conformance-tested against the live implementation by pyvc.conformance on every run.
"""
import ast
import z3
from fractions import Fraction

from .values import (V, C, S, E, O, R, T, U, EnumMember, ClassRef, FuncRef, BoundMethod, ModuleRef,
                     Builtin, SuperRef, NONE, TRUE, FALSE, BT, BF, zand, zor, znot, alts, mk_union,
                     ite, is_concrete, py_of, EmptyUnion)
from . import prims as P
from .prims import OutOfSubset
from .source import ClassInfo

VAL, RAISE = "val", "raise"


class SynthInfo:
    """A synthetic subclass that overrides class-level constants (provider path conventions)."""

    def __init__(self, name, base_cref, values):
        self.name = name
        self.qualname = "synth:" + name
        self.methods = {}
        self.attrs = {}
        self.attr_order = []
        self.values = dict(values)
        self.base_crefs = [base_cref]
        self.module = base_cref.info.module
        self.base_exprs = []
        self.decorators = []
        self.node = None


def HObj(*a, **k):
    from .engine import HObj as H
    return H(*a, **k)


# ---------------------------------------------------------------------------------------------
# builtin name tables
# ---------------------------------------------------------------------------------------------

BUILTIN_CLASSES = ["object", "str", "int", "float", "bool", "bytes", "tuple", "list", "dict", "set",
                   "frozenset", "type"]


def lookup_builtin(name):
    from .engine import Engine
    if name in Engine.BUILTIN_EXC or name in BUILTIN_CLASSES:
        return C(ClassRef(name))
    if name in BUILTIN_FUNCS:
        return C(Builtin(name))
    if name in ("True", "False", "None"):
        return C({"True": True, "False": False, "None": None}[name])
    if name == "__name__":
        return C("module")
    if name == "NotImplemented":
        return C(NotImplemented)
    return None


EXTERNAL_CLASSES = {
    "threading.Thread": "threading.Thread", "threading.RLock": "threading.RLock",
    "enum.Enum": "Enum", "abc.ABC": "object", "queue.Empty": "queue.Empty",
    "sqlite3.OperationalError": "sqlite3.OperationalError",
    "typing.NamedTuple": "object", "datetime.datetime": "datetime.datetime",
}


def lookup_external(dotted):
    if dotted in EXTERNAL_CLASSES:
        return C(ClassRef(EXTERNAL_CLASSES[dotted]))
    if dotted in BUILTIN_FUNCS:
        return C(Builtin(dotted))
    mod = dotted.split(".")[0]
    if mod in ("typing", "abc", "dataclasses", "pystrict", "functools"):
        return C(Builtin("typing." + dotted.split(".")[-1]))
    if dotted in ("os.path",):
        return C(ModuleRef("os.path"))
    if dotted.startswith("logging.Logger."):
        nm = dotted.split(".")[-1]
        return C(Builtin("logger.isEnabledFor_" if nm == "isEnabledFor" else "logger." + nm))
    if dotted.startswith("logging."):
        nm = dotted.split(".")[-1]
        if nm.isupper():
            return C({"DEBUG": 10, "INFO": 20, "WARNING": 30, "ERROR": 40, "CRITICAL": 50}.get(nm, 0))
        return C(Builtin(dotted))
    return None


# ---------------------------------------------------------------------------------------------
# getattr / setattr
# ---------------------------------------------------------------------------------------------

STR_METHODS = {"rstrip", "lstrip", "strip", "replace", "lower", "upper", "find", "rfind", "startswith", "endswith",
               "join", "split", "encode", "format", "hex"}
LIST_METHODS = {"append", "extend", "pop", "remove", "index", "copy", "sort", "insert", "clear"}
DICT_METHODS = {"get", "pop", "items", "keys", "values", "setdefault", "copy", "update", "clear"}
SET_METHODS = {"add", "discard", "remove", "copy", "clear", "pop", "update"}


def getattr_base(eng, st, v, name, default=None):
    def missing(msg):
        if default is not None:
            return eng.ok(st, default)
        return [eng.raise_new(st, "AttributeError", msg)]

    if isinstance(v, R):
        o = st.obj(v)
        if o.kind in ("obj", "exc"):
            if name in o.fields:
                return eng.ok(st, o.fields[name])
            if o.kind == "exc":
                if name == "__class__":
                    return eng.ok(st, C(o.cls) if isinstance(o.cls, ClassRef) else P.fresh("excls", "cls"))
                if name in ("errno", "strerror", "filename", "winerror"):
                    return eng.ok(st, o.fields.setdefault(name, _fresh_opt_int(st, name) if name in ("errno", "winerror") else NONE))
            cref = _obj_class(o)
            if cref is not None:
                if name == "__class__":
                    return eng.ok(st, C(cref))
                if name == "__dict__":
                    raise OutOfSubset("__dict__ access")
                hit = eng.class_lookup(cref, name)
                if hit is None and isinstance(cref.info, SynthInfo) is False:
                    pass
                hit = class_lookup_ext(eng, cref, name)
                if hit is not None:
                    return _bind_class_attr(eng, st, v, cref, hit, name)
                ga = class_lookup_ext(eng, cref, "__getattr__")
                if ga is not None and ga[0] == "method":
                    fref = FuncRef(ga[2].info.module, ga[1], ga[2].info)
                    return eng.call_function(st, fref, [C(name)], {}, self_v=v)
            if "getattr" in o.meta:
                return o.meta["getattr"](eng, st, v, name, default)
            return missing("%s object has no attribute %s" % (_cls_name(o), name))
        if o.kind == "list" and name in LIST_METHODS:
            return eng.ok(st, C(Builtin("list." + name, v)))
        if o.kind == "dict" and name in DICT_METHODS:
            return eng.ok(st, C(Builtin("dict." + name, v)))
        if o.kind == "set" and name in SET_METHODS | {"issubset", "union"}:
            return eng.ok(st, C(Builtin("set." + name, v)))
        if o.kind == "opaque":
            if name in o.fields:
                return eng.ok(st, o.fields[name])
            if "getattr" in o.meta:
                return o.meta["getattr"](eng, st, v, name, default)
            return eng.ok(st, C(Builtin("opaque." + name, v)))
        if o.kind == "abslist":
            return eng.ok(st, C(Builtin("abslist." + name, v)))
        if o.kind == "iter":
            return eng.ok(st, C(Builtin("iter." + name, v)))
        raise OutOfSubset("getattr %s on %s" % (name, o.kind))
    if isinstance(v, C):
        x = v.v
        if x is None:
            return missing("'NoneType' object has no attribute '%s'" % name)
        if isinstance(x, ClassRef):
            return getattr_class(eng, st, x, name, default)
        if isinstance(x, ModuleRef):
            return eng.ok(st, eng.module_attr(x.name, name))
        if isinstance(x, EnumMember):
            if name == "value":
                return eng.ok(st, _lift_py(x.value))
            if name == "name":
                return eng.ok(st, C(x.name))
            hit = class_lookup_ext(eng, ClassRef(x.cls), name)
            if hit is not None:
                return _bind_class_attr(eng, st, v, ClassRef(x.cls), hit, name)
            return missing("enum member has no attribute %s" % name)
        if isinstance(x, str):
            if name in STR_METHODS:
                return eng.ok(st, C(Builtin("str." + name, v)))
            return missing("'str' object has no attribute '%s'" % name)
        if isinstance(x, bytes):
            return eng.ok(st, C(Builtin("bytes." + name, v)))
        if isinstance(x, SuperRef):
            return getattr_super(eng, st, x, name)
        if isinstance(x, (int, Fraction)) and not isinstance(x, bool):
            return missing("number has no attribute %s" % name)
        if isinstance(x, bool):
            return missing("bool has no attribute %s" % name)
        if isinstance(x, (FuncRef, BoundMethod)):
            if name == "__name__":
                return eng.ok(st, C(getattr(x.node if isinstance(x, FuncRef) else x.func.node, "name", "<lambda>")))
        raise OutOfSubset("getattr %s on constant %r" % (name, x))
    if isinstance(v, S):
        if v.sort == "str":
            if name in STR_METHODS:
                return eng.ok(st, C(Builtin("str." + name, v)))
            return missing("'str' object has no attribute '%s'" % name)
        return missing("'%s' object has no attribute '%s'" % (P.kind(v), name))
    if isinstance(v, E):
        if name == "value":
            ms = eng.enum_members(v.cls)
            return eng.ok(st, mk_union([(v.t == m.index, _lift_py(m.value)) for m in ms]))
        hit = class_lookup_ext(eng, ClassRef(v.cls), name)
        if hit is not None:
            return _bind_class_attr(eng, st, v, ClassRef(v.cls), hit, name)
        return missing("enum has no attribute %s" % name)
    if isinstance(v, O):
        # foreign value: attribute reads are deterministic uninterpreted functions of the value
        if default is not None and name in ("read", "close"):
            f = z3.Function("hasattr_%s_%s" % (v.sort, name), P.opaque_sort(v.sort), P.BoolS)
            return eng.ok(st, ite(f(v.t), C(Builtin("opaque." + name, v)), default))
        return eng.ok(st, C(Builtin("opaque." + name, v)))
    if isinstance(v, T):
        if name in ("index", "count"):
            return eng.ok(st, C(Builtin("tuple." + name, v)))
        return missing("'tuple' object has no attribute '%s'" % name)
    raise OutOfSubset("getattr on %r" % (v,))


def _fresh_opt_int(st, name):
    return P.fresh("int", name)


def _lift_py(x):
    if isinstance(x, tuple):
        return T([_lift_py(i) for i in x])
    return C(x)


def _cls_name(o):
    c = _obj_class(o)
    return c.name if c else o.kind


def _obj_class(o):
    if isinstance(o.cls, ClassRef):
        return o.cls
    if isinstance(o.cls, (ClassInfo, SynthInfo)):
        return ClassRef(o.cls)
    return None


def class_lookup_ext(eng, cref, name):
    for c in eng.mro(cref):
        if isinstance(c.info, str):
            continue
        info = c.info
        pref = "_" + info.name.lstrip("_") + "__"
        if name.startswith(pref) and not isinstance(info, SynthInfo):
            plain = "__" + name[len(pref):]
            if plain in info.methods:
                return ("method", info.methods[plain], c)
            if plain in info.attrs:
                return ("attr", info.attrs[plain], c)
        if isinstance(info, SynthInfo):
            if name in info.values:
                return ("value", info.values[name], c)
            continue
        if name in info.methods:
            return ("method", info.methods[name], c)
        if name in info.attrs:
            return ("attr", info.attrs[name], c)
    return None


def _decorators(node):
    return [ast.unparse(d) for d in node.decorator_list]


def _bind_class_attr(eng, st, self_v, cref, hit, name):
    kind, payload, owner = hit
    if kind == "value":
        return eng.ok(st, payload)
    if kind == "attr":
        return eng.ok(st, eng.eval_const_expr(owner.info.module, payload))
    node = payload
    decs = _decorators(node)
    fref = FuncRef(owner.info.module, node, owner.info, closure=getattr(owner.info, "closure", None))
    if "property" in decs:
        return eng.call_function(st, fref, [], {}, self_v=self_v)
    if "staticmethod" in decs:
        return eng.ok(st, C(fref))
    if "classmethod" in decs:
        return eng.ok(st, C(BoundMethod(fref, C(cref))))
    return eng.ok(st, C(BoundMethod(fref, self_v)))


def getattr_class(eng, st, cref, name, default=None):
    if isinstance(cref.info, str):
        if cref.info == "object" and name in ("__setattr__", "__getattribute__", "__init__"):
            return eng.ok(st, C(Builtin("object." + name)))
        if name == "__name__":
            return eng.ok(st, C(cref.info))
        raise OutOfSubset("attribute %s of builtin class %s" % (name, cref.info))
    if name == "__name__":
        return eng.ok(st, C(cref.info.name))
    if eng.is_enum(cref):
        for m in eng.enum_members(cref.info):
            if m.name == name:
                return eng.ok(st, C(m))
    hit = class_lookup_ext(eng, cref, name)
    if hit is None:
        if default is not None:
            return eng.ok(st, default)
        return [eng.raise_new(st, "AttributeError", "class %s has no attribute %s" % (cref.name, name))]
    kind, payload, owner = hit
    if kind == "value":
        return eng.ok(st, payload)
    if kind == "attr":
        return eng.ok(st, eng.eval_const_expr(owner.info.module, payload))
    node = payload
    decs = _decorators(node)
    fref = FuncRef(owner.info.module, node, owner.info)
    if "classmethod" in decs:
        return eng.ok(st, C(BoundMethod(fref, C(cref))))
    return eng.ok(st, C(fref))


def getattr_super(eng, st, sref, name):
    # search the MRO of the instance's class after sref.cls
    self_v = sref.self_v
    inst_cls = None
    if isinstance(self_v, R):
        inst_cls = _obj_class(st.obj(self_v))
    elif isinstance(self_v, C) and isinstance(self_v.v, ClassRef):
        inst_cls = self_v.v
    if inst_cls is None:
        raise OutOfSubset("super() on %r" % (self_v,))
    mro = eng.mro(inst_cls)
    idx = [i for i, c in enumerate(mro) if c == sref.cls]
    rest = mro[idx[0] + 1:] if idx else mro[1:]
    for c in rest:
        if isinstance(c.info, str):
            continue
        if isinstance(c.info, SynthInfo):
            continue
        if name in c.info.methods:
            fref = FuncRef(c.info.module, c.info.methods[name], c.info)
            return eng.ok(st, C(BoundMethod(fref, self_v)))
    if name in ("__init__", "__setattr__", "__enter__", "__exit__"):
        return eng.ok(st, C(Builtin("object." + name, self_v)))
    return [eng.raise_new(st, "AttributeError", "super has no attribute %s" % name)]


def setattr_base(eng, st, v, name, val, raw=False):
    if isinstance(v, R):
        o = st.obj(v)
        if o.kind in ("obj", "exc", "opaque"):
            cref = _obj_class(o)
            if not raw and cref is not None:
                sa = class_lookup_ext(eng, cref, "__setattr__")
                if sa is not None and sa[0] == "method":
                    fref = FuncRef(sa[2].info.module, sa[1], sa[2].info)
                    return eng.call_function(st, fref, [C(name), val], {}, self_v=v)
                ps = class_lookup_ext(eng, cref, name + ".setter")
                if ps is not None and ps[0] == "method":
                    fref = FuncRef(ps[2].info.module, ps[1], ps[2].info)
                    return eng.call_function(st, fref, [val], {}, self_v=v)
            if "setattr" in o.meta and not raw:
                return o.meta["setattr"](eng, st, v, name, val)
            o.fields[name] = val
            st.touch(o, name)
            if "on_write" in o.meta:
                o.meta["on_write"](eng, st, v, name, val)
            return eng.ok(st, NONE)
        raise OutOfSubset("setattr on %s" % o.kind)
    if isinstance(v, C) and v.v is None:
        return [eng.raise_new(st, "AttributeError", "'NoneType' object has no attribute '%s'" % name)]
    raise OutOfSubset("setattr on %r" % (v,))


# ---------------------------------------------------------------------------------------------
# items
# ---------------------------------------------------------------------------------------------

def getitem_base(eng, st, v, idx):
    if isinstance(v, R):
        o = st.obj(v)
        if o.kind == "list":
            return eng.prim(st, lambda s: _index_list(s, T(o.items), idx, "list"))
        if o.kind == "dict":
            return dict_get(eng, st, v, idx, None, raise_missing=True)
        if o.kind == "abslist":
            return abslist_index(eng, st, v, idx)
        if o.kind in ("obj", "opaque"):
            cref = _obj_class(o)
            if cref is not None:
                gi = class_lookup_ext(eng, cref, "__getitem__")
                if gi is not None and gi[0] == "method":
                    fref = FuncRef(gi[2].info.module, gi[1], gi[2].info)
                    return eng.call_function(st, fref, [idx], {}, self_v=v)
            if "getitem" in o.meta:
                return o.meta["getitem"](eng, st, v, idx)
        raise OutOfSubset("getitem on %s" % o.kind)
    if isinstance(v, C) and v.v is None:
        return [eng.raise_new(st, "TypeError", "'NoneType' object is not subscriptable")]
    if isinstance(v, C) and isinstance(v.v, (ClassRef, Builtin)):
        return eng.ok(st, v)          # typing subscripts such as List[int]
    res = []
    for gi, ib in alts(idx):
        pass
    return eng.prim(st, lambda s: mk_union([(gi, P.s_index(s, v, ib, gi)) for gi, ib in alts(idx)]))


def _index_list(st, tup, idx, what):
    return mk_union([(gi, P.s_index(st, tup, ib, gi)) for gi, ib in alts(idx)])


def setitem_base(eng, st, v, idx, val):
    if isinstance(v, U):
        res = []
        for g, b in v.alts:
            if not eng.feasible(st, g):
                continue
            s = st.clone()
            s.assume(g)
            res.extend(setitem_base(eng, s, b, idx, val))
        return res
    if isinstance(v, R):
        o = st.obj(v)
        if o.kind == "list":
            if isinstance(idx, C) and isinstance(idx.v, int) and -len(o.items) <= idx.v < len(o.items):
                o.items[idx.v] = val
                st.touch(o)
                return eng.ok(st, NONE)
            if isinstance(idx, C):
                return [eng.raise_new(st, "IndexError", "list assignment index out of range")]
            it = P.int_of(idx)
            if it is None:
                raise OutOfSubset("list index kind")
            n = len(o.items)
            st.pend(z3.Or(it < -n, it >= n), "IndexError", "list assignment index out of range")
            o.items = [ite(z3.Or(it == k, it == k - n), val, old) for k, old in enumerate(o.items)]
            st.touch(o)
            return eng.flush(st, NONE)
        if o.kind == "dict":
            dict_set(eng, st, v, idx, val)
            return eng.ok(st, NONE)
        if o.kind in ("obj", "opaque"):
            cref = _obj_class(o)
            if cref is not None:
                si = class_lookup_ext(eng, cref, "__setitem__")
                if si is not None and si[0] == "method":
                    fref = FuncRef(si[2].info.module, si[1], si[2].info)
                    return eng.call_function(st, fref, [idx, val], {}, self_v=v)
            if "setitem" in o.meta:
                return o.meta["setitem"](eng, st, v, idx, val)
        raise OutOfSubset("setitem on %s" % o.kind)
    if isinstance(v, T):
        return [eng.raise_new(st, "TypeError", "'tuple' object does not support item assignment")]
    raise OutOfSubset("setitem on %r" % (v,))


def delitem_base(eng, st, v, idx):
    if isinstance(v, R) and st.obj(v).kind == "dict":
        return dict_pop(eng, st, v, idx, None, raise_missing=True)
    if isinstance(v, R) and "delitem" in st.obj(v).meta:
        return st.obj(v).meta["delitem"](eng, st, v, idx)
    raise OutOfSubset("del item on %r" % (v,))


# dict model: items = [key, value, present-guard]; keys pairwise distinct where present

def dict_set(eng, st, d, k, val):
    o = st.obj(d)
    new_items = []
    for key, v0, pres in o.items:
        same = P.eq(st, key, k)
        if z3.is_true(same):
            continue
        if z3.is_false(same):
            new_items.append([key, v0, pres])
        else:
            new_items.append([key, v0, zand(pres, znot(same))])
    new_items.append([k, val, BT])
    o.items = new_items
    st.touch(o)


def _open_probe(eng, st, o, k):
    """open (partially known) dict: a key that matches no known item may still be bound in the unknown rest;
    materialise that possibility as a new item so that later accesses of the same key are consistent"""
    if not o.meta.get("open"):
        return
    if o.meta.get("no_none_keys"):
        isn = P.is_none(k)
        if z3.is_true(isn):
            return
    nomatch = znot(zor(*[P.eq(st, key, k) for key, _, _ in o.items]))
    if o.meta.get("no_none_keys"):
        nomatch = zand(nomatch, znot(P.is_none(k)))
    if z3.is_false(nomatch):
        return
    pres = z3.Bool(P.fresh_name("absdict.has"))
    val = o.meta["gen"](eng, st, k)
    o.items.append([k, val, zand(nomatch, pres)])
    st.touch(o)


def dict_get(eng, st, d, k, default, raise_missing=False):
    o = st.obj(d)
    _open_probe(eng, st, o, k)
    found = []
    for key, v0, pres in o.items:
        g = zand(pres, P.eq(st, key, k))
        if not z3.is_false(g):
            found.append((g, v0))
    missing = znot(zor(*[g for g, _ in found]))
    if raise_missing:
        st.pend(missing, "KeyError", "key not found")
        if not found:
            return eng.flush(st, NONE)
        return eng.prim(st, lambda s: mk_union(found))
    dv = default if default is not None else NONE
    return eng.ok(st, mk_union(found + [(missing, dv)]))


def dict_pop(eng, st, d, k, default, raise_missing=False):
    o = st.obj(d)
    _open_probe(eng, st, o, k)
    found = []
    new_items = []
    for key, v0, pres in o.items:
        same = P.eq(st, key, k)
        g = zand(pres, same)
        if not z3.is_false(g):
            found.append((g, v0))
        if z3.is_true(same):
            continue
        new_items.append([key, v0, zand(pres, znot(same))])
    missing = znot(zor(*[g for g, _ in found]))
    if raise_missing:
        st.pend(missing, "KeyError", "key not found")
    if o.meta.get("open"):
        new_items.append([k, NONE, BF])     # tombstone: the key is known to be absent from now on
    o.items = new_items
    st.touch(o)
    if raise_missing:
        if not found:
            return eng.flush(st, NONE)
        return eng.prim(st, lambda s: mk_union(found))
    dv = default if default is not None else NONE
    return eng.ok(st, mk_union(found + [(missing, dv)]))


def dict_contains(eng, st, d, k):
    o = st.obj(d)
    _open_probe(eng, st, o, k)
    return zor(*[zand(pres, P.eq(st, key, k)) for key, _, pres in o.items])


def make_set(eng, st, vals):
    r = st.alloc(HObj("set", "set"))
    o = st.obj(r)
    for v in vals:
        _set_add(eng, st, o, v)
    return r


def _set_add(eng, st, o, v):
    for x in o.items:
        same = P.eq(st, x, v)
        if z3.is_true(same):
            return
        if not z3.is_false(same):
            raise OutOfSubset("set with symbolically aliasing members (%r, %r)" % (x, v))
    o.items.append(v)
    st.touch(o)


def set_from_maybe_equal(eng, st, vals):
    """set([a, b]) for two symbolic values: fork on equality."""
    if len(vals) != 2:
        return None
    same = P.eq(st, vals[0], vals[1])
    res = []
    for s, b in eng.branch(st, same):
        r = s.alloc(HObj("set", "set", items=[vals[0]] if b else [vals[0], vals[1]]))
        res.append((s, (VAL, r)))
    return res


def obj_contains(eng, st, c, item):
    o = st.obj(c)
    if o.kind in ("list", "set"):
        return eng.ok(st, P.mk_bool(zor(*[P.eq(st, item, x) for x in o.items])))
    if o.kind == "dict":
        return eng.ok(st, P.mk_bool(dict_contains(eng, st, c, item)))
    if o.kind == "abslist":
        return abslist_contains(eng, st, c, item)
    if "contains" in o.meta:
        return o.meta["contains"](eng, st, c, item)
    raise OutOfSubset("`in` on %s" % o.kind)


# ---------------------------------------------------------------------------------------------
# abstract lists (results of opaque lookups of unknown length)
# ---------------------------------------------------------------------------------------------

def new_abslist(eng, st, elem_gen, name="ents", known=()):
    """A list of unknown length. `elem_gen(eng, st) -> V` yields a fresh arbitrary element
    satisfying the list's element invariant; `known` are specific values that may be members."""
    n = z3.Int(P.fresh_name("len_" + name))
    st.axiom(n >= 0)
    o = HObj("abslist", "list", meta={"length": n, "nonempty": n > 0, "gen": elem_gen, "filters": [], "name": name,
                                      "known": list(known)})
    return st.alloc(o)


def abslist_pick(eng, st, lst):
    """An arbitrary element of the list satisfying all filters: fork over known members and a fresh one.
    Returns [(state, value)]"""
    o = st.obj(lst)
    res = []
    cands = [("known", k) for k in o.meta["known"]] + [("fresh", None)]
    for kind_, k in cands:
        s = st.clone() if len(cands) > 1 else st
        if kind_ == "fresh":
            outs = o.meta["gen"](eng, s)
        else:
            outs = [(s, k)]
        for s2, v in outs:
            ok = True
            states = [s2]
            for flt in st.obj(lst).meta["filters"]:
                nstates = []
                for s3 in states:
                    for s4, keep in flt(eng, s3, v):
                        if keep:
                            nstates.append(s4)
                states = nstates
            for s3 in states:
                res.append((s3, v))
    return res


def abslist_index(eng, st, lst, idx):
    o = st.obj(lst)
    it = P.int_of(idx)
    if it is None:
        raise OutOfSubset("abslist index")
    n = o.meta["length"]
    st.pend(z3.Or(it < -n, it >= n), "IndexError", "list index out of range")
    res = []
    for s, (tag, _) in eng.flush(st, NONE):
        if tag == RAISE:
            res.append((s, (tag, _)))
            continue
        for s2, v in abslist_pick(eng, s, lst):
            res.append((s2, (VAL, v)))
    return res


def abslist_contains(eng, st, lst, item):
    # membership of a specific value in an unknown list: unknown boolean (but false if empty)
    o = st.obj(lst)
    b = z3.Bool(P.fresh_name("member"))
    st.axiom(z3.Implies(b, o.meta["nonempty"]))
    return eng.ok(st, S("bool", b))


def abslist_comprehension(eng, st, lst, e, gen):
    """[elt for x in abslist if cond]  with elt == x: a filtered abstract list."""
    o = st.obj(lst)
    if not (isinstance(e.elt, ast.Name) and isinstance(gen.target, ast.Name) and e.elt.id == gen.target.id):
        # mapped comprehension: elements are arbitrary results; evaluate elt once for obligations and return opaque list
        raise OutOfSubset("mapping comprehension over abstract list")
    frame_snapshot = st.frame
    tname = gen.target.id
    conds = list(gen.ifs)

    def flt(eng_, s, v):
        saved = s.frame.locals.get(tname)
        s.frame.locals[tname] = v
        states = [(s, True)]
        for cond in conds:
            nstates = []
            for s2, keep in states:
                if not keep:
                    nstates.append((s2, False))
                    continue
                for s3, (t3, cv) in eng_.eval(s2, cond):
                    if t3 == RAISE:
                        raise OutOfSubset("exception inside abstract-list filter")
                    brs, excs = eng_.truth_branch(s3, cv)
                    if excs:
                        raise OutOfSubset("exception inside abstract-list filter")
                    nstates.extend(brs)
            states = nstates
        for s2, _ in states:
            if saved is None:
                s2.frame.locals.pop(tname, None)
            else:
                s2.frame.locals[tname] = saved
        return states
    # the filter closes over the *current* frame's variables by value
    captured = dict(st.frame.locals)

    def flt_closed(eng_, s, v):
        # evaluate the filter in a temporary frame holding the captured variables
        from .engine import Frame
        fr = Frame(st.frame.module, st.frame.cls, st.frame.func, closure=st.frame.closure)
        fr.locals = dict(captured)
        fr.self_v = st.frame.self_v
        s.frames.append(fr)
        try:
            out = flt(eng_, s, v)
        finally:
            pass
        res = []
        for s2, keep in out:
            s2.frames.pop()
            res.append((s2, keep))
        return res
    n2 = z3.Int(P.fresh_name("len_flt"))
    st.axiom(n2 >= 0)
    st.axiom(n2 <= o.meta["length"])
    # elements known to be in the source list stay known members when the filter keeps them
    musts = []
    for g, v in o.meta.get("must", []):
        probe = st.clone()
        base = len(probe.pc)
        try:
            keeps = [zand(*s2.pc[base:]) for s2, keep in flt_closed(eng, probe, v) if keep]
        except OutOfSubset:
            keeps = []
        gg = zand(g, zor(*keeps))
        if not z3.is_false(gg):
            musts.append((gg, v))
    new = HObj("abslist", "list", meta={"length": n2, "nonempty": n2 > 0, "gen": o.meta["gen"],
                                        "filters": o.meta["filters"] + [flt_closed], "name": o.meta["name"] + "'",
                                        "known": list(o.meta["known"]), "must": musts})
    if musts:
        st.axiom(z3.Implies(zor(*[g for g, _ in musts]), n2 > 0))
    return eng.ok(st, st.alloc(new))


def abslist_for(eng, st, lst, stmt):
    """`for x in abslist: body` by arbitrary-iteration abstraction.

    1. probe: run the body once from the current state to discover its write set (pre-existing heap
       objects written, local names assigned);
    2. havoc that write set (the state at the start of an arbitrary iteration is arbitrary on it);
    3. run the body on an arbitrary element: obligations inside are checked there;
    4. havoc the write set again (later iterations) and continue after the loop; effects logged by the
       body are duplicated in the log (they may happen any number of times).
    Loops whose body is write-free need no havoc.  For elements known to be in the list the body's
    fall-through condition is assumed after a complete run (see _assume_fallthrough)."""
    key = (st.frame.func.qualname if st.frame.func else None, stmt.lineno)
    o = st.obj(lst)
    res = []
    musts = list(o.meta.get("must", []))
    # ---- probe
    probe = st.clone()
    probe.wfields = {}
    pmark = probe.mark()
    plocals = dict(probe.frame.locals)
    written, assigned = {}, set()
    try:
        for s2, v in abslist_pick(eng, probe, lst):
            for s3, o3 in eng.assign_target(s2, stmt.target, v):
                if o3[0] != "next":
                    continue
                for s4, o4 in eng.exec_block(s3, stmt.body):
                    if o4[0] not in ("next", "continue"):
                        continue        # writes on paths that leave the loop do not reach later iterations
                    for a in s4.wlog[pmark[0]:]:
                        if a <= pmark[1]:
                            written.setdefault(a, set()).update(s4.wfields.get(a, {None}))
                    for k, val in s4.frame.locals.items():
                        if k not in plocals or plocals[k] is not val:
                            assigned.add(k)
    except OutOfSubset:
        raise
    assigned -= set(_target_names(stmt.target))
    saved_obls = None

    def havoc(s):
        from . import world
        for a in sorted(written):
            world.auto_havoc_object(eng, s, a, written[a])
        for k in sorted(assigned):
            if k in s.frame.locals:
                s.frame.locals[k] = world.havoc_value(eng, s, s.frame.locals[k], k)
            elif k in plocals:
                s.frame.locals[k] = world.havoc_value(eng, s, plocals[k], k)
    # ---- zero iterations / some iterations
    brs = eng.branch(st, o.meta["nonempty"] if not musts else zor(o.meta["nonempty"], *[g for g, _ in musts]))
    for s, nonempty in brs:
        if not nonempty:
            res.append((s, ("next", None)))
            continue
        if written or assigned:
            havoc(s)
        n_eff = len(s.effects)
        for s2, v in abslist_pick(eng, s, lst):
            for s3, o3 in eng.assign_target(s2, stmt.target, v):
                if o3[0] != "next":
                    res.append((s3, o3))
                    continue
                for s4, o4 in eng.exec_block(s3, stmt.body):
                    if o4[0] not in ("next", "continue") and o.meta.get("sorted_key") is not None and musts:
                        _assume_sorted_prefix(eng, s3, s4, lst, stmt, musts, v, o.meta["sorted_key"])
                    if o4[0] in ("next", "continue", "break"):
                        new_eff = s4.effects[n_eff:]
                        if o4[0] != "break":
                            s4.effects.extend(new_eff)      # may repeat
                            if written or assigned:
                                havoc(s4)
                            _assume_fallthrough(eng, s4, lst, stmt, musts)
                            if new_eff:
                                # the body has logged effects: an element that is certainly in the list was visited, so
                                # its own iteration (from an arbitrary state of the write set) is in the log as well
                                res.extend(_visit_certain_members(eng, s4, stmt, musts, v, havoc if (written or assigned) else None))
                                continue
                        res.append((s4, ("next", None)))
                    else:
                        res.append((s4, o4))
    return res


def _visit_certain_members(eng, st, stmt, musts, cur, havoc):
    """after a complete run of an abstract loop: one explicit iteration for every element whose membership is certain
    (other than the element the generic iteration ran on).  Returns loop outcomes."""
    states = [st]
    out = []
    for g, m in musts:
        if isinstance(m, R) and isinstance(cur, R) and m.addr == cur.addr:
            continue
        nstates = []
        for s in states:
            if z3.is_false(g) or eng.feasible(s, znot(g)):
                nstates.append(s)       # membership not certain here
                continue
            for s3, o3 in eng.assign_target(s, stmt.target, m):
                if o3[0] != "next":
                    out.append((s3, o3))
                    continue
                for s4, o4 in eng.exec_block(s3, stmt.body):
                    if o4[0] in ("next", "continue"):
                        if havoc is not None:
                            havoc(s4)
                        nstates.append(s4)
                    elif o4[0] == "break":
                        out.append((s4, ("next", None)))
                    else:
                        out.append((s4, o4))
        states = nstates
    for s in states:
        out.append((s, ("next", None)))
    return out


def abstract_while(eng, st, stmt):
    """`while test: body` with a symbolic test, by arbitrary-iteration abstraction (no user invariant):

    * the write set of one iteration (heap fields, locals) is discovered by a probe run;
    * zero iterations: the test is false in the pre-state (kept exactly);
    * exactly one iteration from the exact pre-state;
    * otherwise the run is  [earlier iterations]  +  a last iteration.  The last iteration starts, with a true test, from
      a state that is arbitrary on the write set and leaves by a false test after its body, break, return or raise;
      earlier iterations are represented by one arbitrary iteration that ends with a true test, whose logged effects are
      duplicated (they may repeat), followed by a havoc of the write set.
    Sound for partial correctness: everything outside the write set is unchanged, nothing is assumed about the write set."""
    from .engine import RAISE
    if stmt.orelse:
        raise OutOfSubset("while/else")

    def eval_test(s):
        """-> (states where the test is true, states where it is false, raise outcomes)"""
        yes, no, exc = [], [], []
        for s2, (t2, cv) in eng.eval(s, stmt.test):
            if t2 == RAISE:
                exc.append((s2, ("raise", cv)))
                continue
            brs, excs = eng.truth_branch(s2, cv)
            exc.extend((x, ("raise", y)) for x, (_, y) in excs)
            for s3, b_ in brs:
                (yes if b_ else no).append(s3)
        return yes, no, exc

    def iter_from(s):
        """one iteration from a state in which the test holds -> [(state, ('again'|'exit'|'raise'|'return', v))]"""
        outs = []
        for s4, o4 in eng.exec_block(s, stmt.body):
            if o4[0] in ("next", "continue"):
                yes, no, exc = eval_test(s4)
                outs.extend((x, ("again", None)) for x in yes)
                outs.extend((x, ("exit", None)) for x in no)
                outs.extend(exc)
            elif o4[0] == "break":
                outs.append((s4, ("exit", None)))
            else:
                outs.append((s4, o4))
        return outs

    # ---- probe
    probe = st.clone()
    probe.wfields = {}
    pmark = probe.mark()
    plocals = dict(probe.frame.locals)
    written, assigned = {}, set()
    examples = {}
    for sp in eval_test(probe)[0]:
        for s4, o4 in iter_from(sp):
            for k, val in s4.frame.locals.items():
                if k not in plocals or plocals[k] is not val:
                    examples.setdefault(k, []).append(val)
            if o4[0] != "again":
                continue
            for a in s4.wlog[pmark[0]:]:
                if a <= pmark[1]:
                    written.setdefault(a, set()).update(s4.wfields.get(a, {None}))
            for k, val in s4.frame.locals.items():
                if k not in plocals or plocals[k] is not val:
                    assigned.add(k)

    def havoc(s):
        from . import world
        for a in sorted(written):
            world.auto_havoc_object(eng, s, a, written[a])
        for k in sorted(assigned):
            ex = ([plocals[k]] if k in plocals else []) + examples.get(k, [])
            if ex:
                s.frame.locals[k] = world.havoc_examples(eng, s, ex, k)

    res = []
    yes, no, exc = eval_test(st)
    res.extend(exc)
    res.extend((x, ("next", None)) for x in no)          # zero iterations

    def last_iteration(s):
        y2, _, e2 = eval_test(s)
        res.extend(e2)
        for s2 in y2:
            for s4, o4 in iter_from(s2):
                if o4[0] == "again":
                    continue            # not the last iteration
                res.append((s4, ("next", None) if o4[0] == "exit" else o4))

    for s in yes:
        # (c) exactly one iteration, from the exact pre-state
        for s4, o4 in iter_from(s.clone()):
            if o4[0] != "again":
                res.append((s4, ("next", None) if o4[0] == "exit" else o4))
        # (a) several iterations, only the last one logged anything
        sa = s.clone()
        havoc(sa)
        last_iteration(sa)
        # (b) an arbitrary earlier iteration (effects may repeat), then the last one
        havoc(s)
        n_eff = len(s.effects)
        y2, _, e2 = eval_test(s)
        for s2 in y2:
            for s4, o4 in iter_from(s2):
                if o4[0] != "again":
                    continue            # exits from an arbitrary iteration are those of (a)
                s4.effects.extend(s4.effects[n_eff:])
                havoc(s4)
                last_iteration(s4)
    return res


def _target_names(t):
    if isinstance(t, ast.Name):
        return [t.id]
    if isinstance(t, (ast.Tuple, ast.List)):
        out = []
        for e in t.elts:
            out.extend(_target_names(e))
        return out
    return []


def _assume_sorted_prefix(eng, pre, post, lst, stmt, musts, cur, keyfn):
    """The loop over a sorted list leaves at element `cur`: every element known to be in the list whose key is
    strictly smaller was visited earlier and fell through.  `pre` is the state at the start of the iteration (used
    to evaluate keys and the body's fall-through condition), `post` the state that leaves the loop."""
    for g, m in musts:
        if z3.is_false(g) or (isinstance(m, R) and isinstance(cur, R) and m.addr == cur.addr):
            continue
        # evaluate on a copy of the state that leaves the loop: the original pre-iteration state object may meanwhile
        # have been advanced along a sibling path, and terms simplified under that path's condition are not valid here
        probe = post.clone()
        try:
            km = eng.call_value(probe, keyfn, [m], {})
            import os as _os
            if _os.environ.get("VERIF_TRACE"):
                print("sorted-prefix key outcomes", len(km), [o[1][0] for o in km])
            if len(km) != 1 or km[0][1][0] != VAL:
                continue
            kc = eng.call_value(km[0][0], keyfn, [cur], {})
            if len(kc) != 1 or kc[0][1][0] != VAL:
                continue
            sp = kc[0][0]
            less = P.truth(sp, P.compare(sp, "<", km[0][1][1], kc[0][1][1]))
            sp.pending = []
            mark = sp.mark()
            base = len(sp.pc)
            conds = []
            ok = True
            for s3, o3 in eng.assign_target(sp, stmt.target, m):
                if o3[0] != "next":
                    ok = False
                    break
                for s4, o4 in eng.exec_block(s3, stmt.body):
                    if o4[0] not in ("next", "continue"):
                        continue
                    if not s4.clean_since(mark):
                        ok = False
                        break
                    conds.append(zand(*s4.pc[base:]))
            if _os.environ.get("VERIF_TRACE"):
                print("sorted-prefix", ok, len(conds))
            if ok:
                post.assume(z3.Implies(zand(g, less), zor(*conds)))
        except OutOfSubset:
            continue


def _assume_fallthrough(eng, st, lst, stmt, musts):
    """The loop ran to completion: for every element known to be in the list the body fell through.
    Only used when the body is write-free for that element (otherwise nothing is assumed)."""
    for g, v in musts:
        if z3.is_false(g):
            continue
        probe = st.clone()
        mark = probe.mark()
        base = len(probe.pc)
        conds = []
        ok = True
        newdefs = []
        ndefs = len(st.defs)
        try:
            for s3, o3 in eng.assign_target(probe, stmt.target, v):
                if o3[0] != "next":
                    ok = False
                    break
                for s4, o4 in eng.exec_block(s3, stmt.body):
                    if o4[0] not in ("next", "continue"):
                        continue
                    if not s4.clean_since(mark):
                        ok = False
                        break
                    if o4[0] in ("next", "continue"):
                        conds.append(zand(*s4.pc[base:]))
                        newdefs.extend(s4.defs[ndefs:])
        except OutOfSubset:
            ok = False
        import os as _os
        if _os.environ.get("VERIF_TRACE"):
            print("fallthrough", ok, g, len(conds))
        if ok:
            seen = set(id(d) for d in st.defs)
            for d in newdefs:
                if id(d) not in seen:
                    st.defs.append(d)
                    seen.add(id(d))
            st.assume(z3.Implies(g, zor(*conds)))


# ---------------------------------------------------------------------------------------------
# with
# ---------------------------------------------------------------------------------------------

def with_enter(eng, st, cm):
    if isinstance(cm, R):
        o = st.obj(cm)
        if o.kind == "opaque" and o.meta.get("tag") == "lock":
            st.ghost["held"] = st.ghost.get("held", 0) + 1
            return eng.ok(st, cm)
        if o.kind == "opaque" and o.meta.get("tag") == "file":
            return eng.ok(st, cm)
        if o.kind == "obj":
            cref = _obj_class(o)
            hit = class_lookup_ext(eng, cref, "__enter__")
            if hit is not None:
                fref = FuncRef(hit[2].info.module, hit[1], hit[2].info, closure=getattr(hit[2].info, "closure", None))
                return eng.call_function(st, fref, [], {}, self_v=cm)
        if "enter" in o.meta:
            return o.meta["enter"](eng, st, cm)
    raise OutOfSubset("with on %r" % (cm,))


def with_exit(eng, st, cm, outcome):
    o = st.obj(cm)
    if o.kind == "opaque" and o.meta.get("tag") == "lock":
        st.ghost["held"] = st.ghost.get("held", 0) - 1
        return eng.ok(st, NONE)
    if o.kind == "opaque" and o.meta.get("tag") == "file":
        return eng.ok(st, NONE)
    if o.kind == "obj":
        cref = _obj_class(o)
        hit = class_lookup_ext(eng, cref, "__exit__")
        if hit is not None:
            fref = FuncRef(hit[2].info.module, hit[1], hit[2].info, closure=getattr(hit[2].info, "closure", None))
            if outcome[0] == "raise":
                args = [P.fresh("excls", "etype"), outcome[1], NONE]
            else:
                args = [NONE, NONE, NONE]
            outs = eng.call_function(st, fref, args, {}, self_v=cm)
            res = []
            for s, (tag, v) in outs:
                if tag == VAL and outcome[0] == "raise":
                    # truthy return value suppresses the exception: only constant False/None supported
                    t = P.truth(s, v)
                    if not z3.is_false(z3.simplify(t)):
                        raise OutOfSubset("__exit__ that may suppress exceptions")
                res.append((s, (tag, v)))
            return res
    if "exit" in o.meta:
        return o.meta["exit"](eng, st, cm, outcome)
    raise OutOfSubset("with-exit on %r" % (cm,))


# ---------------------------------------------------------------------------------------------
# calls
# ---------------------------------------------------------------------------------------------

def call_base(eng, st, fv, args, kwargs, node):
    if isinstance(fv, C):
        x = fv.v
        if isinstance(x, FuncRef):
            return eng.call_function(st, x, args, kwargs)
        if isinstance(x, BoundMethod):
            return eng.call_function(st, x.func, args, kwargs, self_v=x.self_v)
        if isinstance(x, ClassRef):
            return instantiate(eng, st, x, args, kwargs)
        if isinstance(x, Builtin):
            h = eng.handlers.get("builtin:" + x.name)
            if h is not None:
                return h(eng, st, x.recv, args, kwargs)
            fn = BUILTIN_FUNCS.get(x.name)
            if fn is None and x.name.startswith("opaque."):
                return call_opaque_method(eng, st, x, args, kwargs)
            if fn is None:
                raise OutOfSubset("call of unmodelled builtin %s" % x.name)
            return fn(eng, st, x.recv, args, kwargs)
        if x is None:
            return [eng.raise_new(st, "TypeError", "'NoneType' object is not callable")]
        raise OutOfSubset("call of constant %r" % (x,))
    if isinstance(fv, R):
        o = st.obj(fv)
        if "call" in o.meta:
            return o.meta["call"](eng, st, fv, args, kwargs)
        raise OutOfSubset("call of object %s" % o.kind)
    raise OutOfSubset("call of %r" % (fv,))


def call_opaque_method(eng, st, b, args, kwargs):
    recv = b.recv
    name = b.name.split(".", 1)[1]
    if isinstance(recv, R):
        o = st.obj(recv)
        hk = o.meta.get("tag", "") + "." + name
        h = eng.handlers.get(hk) or o.meta.get("methods", {}).get(name)
        if h is not None:
            return h(eng, st, recv, args, kwargs)
        raise OutOfSubset("no model for method %s of opaque object tagged %r" % (name, o.meta.get("tag")))
    if isinstance(recv, O):
        h = eng.handlers.get(recv.sort + "." + name)
        if h is not None:
            return h(eng, st, recv, args, kwargs)
        raise OutOfSubset("no model for method %s of foreign value of sort %s" % (name, recv.sort))
    raise OutOfSubset("opaque method on %r" % (recv,))


def instantiate(eng, st, cref, args, kwargs):
    if isinstance(cref.info, str):
        nm = cref.info
        if nm in eng.BUILTIN_EXC:
            r = eng.new_exc(st, cref, args)
            return eng.ok(st, r)
        fn = BUILTIN_FUNCS.get(nm)
        if fn is not None:
            return fn(eng, st, None, args, kwargs)
        raise OutOfSubset("instantiate builtin class %s" % nm)
    info = cref.info
    if eng.is_exc_class(cref):
        r = eng.new_exc(st, cref, args)
        if "original_exception" in kwargs:
            st.obj(r).fields["original_exception"] = kwargs["original_exception"]
        return eng.ok(st, r)
    if eng.is_enum(cref):
        if len(args) != 1:
            raise OutOfSubset("enum call arity")
        return enum_by_value(eng, st, info, args[0])
    if any(d.startswith("dataclass") for d in info.decorators):
        fields = eng.dataclass_fields(cref)
        vals = {}
        for i, (nm, dflt, mod) in enumerate(fields):
            if i < len(args):
                vals[nm] = args[i]
            elif nm in kwargs:
                vals[nm] = kwargs[nm]
            elif dflt is not None:
                vals[nm] = eng.eval_const_expr(mod, dflt)
            else:
                return [eng.raise_new(st, "TypeError", "missing dataclass field %s" % nm)]
        r = st.alloc(HObj("obj", cref, fields=vals, meta={"dataclass": True}))
        return eng.ok(st, r)
    h = eng.handlers.get("new:" + info.qualname)
    if h is not None:
        return h(eng, st, None, args, kwargs)
    r = st.alloc(HObj("obj", cref))
    hit = class_lookup_ext(eng, cref, "__init__")
    if hit is None or hit[0] != "method":
        return eng.ok(st, r)
    fref = FuncRef(hit[2].info.module, hit[1], hit[2].info, closure=getattr(hit[2].info, "closure", None))

    def done(s, _):
        hook = getattr(eng, "post_init", {}).get(info.qualname)
        if hook is not None:
            hook(eng, s, r)
        return eng.ok(s, r)
    return eng.bind(eng.call_function(st, fref, args, kwargs, self_v=r), done)


def enum_by_value(eng, st, info, v):
    ms = eng.enum_members(info)
    out = []
    nomatch = []
    for g, b in alts(v):
        if isinstance(b, E) and b.cls is info:
            out.append((g, b))
            continue
        if isinstance(b, C) and isinstance(b.v, EnumMember) and b.v.cls is info:
            out.append((g, b))
            continue
        matched = []
        for m in ms:
            c = P.eq(st, b, _lift_py(m.value))
            if not z3.is_false(c):
                out.append((zand(g, c), C(m)))
                matched.append(c)
        nomatch.append(zand(g, znot(zor(*matched))))
    st.pend(zor(*nomatch), "ValueError", "not a valid %s" % info.name)
    if not out:
        return eng.flush(st, NONE)
    return eng.prim(st, lambda s: mk_union(out))


# ---- builtin functions ----------------------------------------------------------------------

def bf(name):
    def deco(fn):
        BUILTIN_FUNCS[name] = fn
        return fn
    return deco


BUILTIN_FUNCS = {}


def _noop(eng, st, recv, args, kwargs):
    return eng.ok(st, NONE)


for _n in ("debug", "info", "warning", "error", "exception", "log", "critical", "isEnabledFor"):
    BUILTIN_FUNCS["logger." + _n] = _noop


@bf("logging.getLogger")
def _getlogger(eng, st, recv, args, kwargs):
    return eng.ok(st, logger_obj(eng, st))


def logger_obj(eng, st):
    def ga(eng_, st_, v, name, default):
        if name in ("debug", "info", "warning", "error", "exception", "log", "critical"):
            return eng_.ok(st_, C(Builtin("logger." + name, v)))
        if name == "isEnabledFor":
            return eng_.ok(st_, C(Builtin("logger.isEnabledFor_", v)))
        raise OutOfSubset("logger attribute %s" % name)
    return st.alloc(HObj("opaque", None, meta={"tag": "logger", "getattr": ga}))


BUILTIN_FUNCS["logger.isEnabledFor_"] = lambda eng, st, recv, args, kwargs: eng.ok(st, P.fresh("bool", "logenabled"))


@bf("isinstance")
def _isinstance(eng, st, recv, args, kwargs):
    v, cls = args
    crefs = [x.v for x in (cls.items if isinstance(cls, T) else [cls])]
    out = []
    for g, b in alts(v):
        out.append(zand(g, zor(*[_isinst1(eng, st, b, c) for c in crefs])))
    return eng.ok(st, P.mk_bool(zor(*out)))


KIND_CLASSES = {"none": (), "bool": ("bool", "int", "object"), "int": ("int", "object"), "float": ("float", "object"),
                "str": ("str", "object"), "bytes": ("bytes", "object"), "tuple": ("tuple", "object")}


def _isinst1(eng, st, v, cref):
    if not isinstance(cref, ClassRef):
        if isinstance(cref, Builtin) and cref.name.startswith("typing."):
            raise OutOfSubset("isinstance against typing construct")
        raise OutOfSubset("isinstance against %r" % (cref,))
    if isinstance(v, R):
        o = st.obj(v)
        if o.kind == "exc":
            return eng.exc_isinstance(st, v, cref)
        oc = _obj_class(o)
        if oc is not None:
            return BT if eng.is_subclass(oc, cref) else BF
        if o.kind in ("list", "dict", "set"):
            return BT if cref.info in (o.kind, "object") else BF
        if o.kind == "abslist":
            return BT if cref.info in ("list", "object") else BF
        if "isinstance" in o.meta:
            return o.meta["isinstance"](eng, st, v, cref)
        return BF
    k = P.kind(v)
    if k.startswith("enum:"):
        cls = v.v.cls if isinstance(v, C) else v.cls
        return BT if eng.is_subclass(ClassRef(cls), cref) else BF
    if k.startswith("opaque:"):
        f = z3.Function("isinst_%s_%s" % (v.sort, cref.name), P.opaque_sort(v.sort), P.BoolS)
        return f(v.t)
    if k == "pyobj":
        return BF
    return BT if (isinstance(cref.info, str) and cref.info in KIND_CLASSES.get(k, ())) else BF


@bf("type")
def _type(eng, st, recv, args, kwargs):
    (v,) = args
    out = []
    for g, b in alts(v):
        if isinstance(b, R):
            o = st.obj(b)
            if o.kind == "exc" and not isinstance(o.cls, ClassRef):
                _, term, allowed = o.cls
                for c in allowed:
                    out.append((zand(g, term == eng.exc_id(c)), C(c)))
                continue
            oc = _obj_class(o)
            if oc is None:
                oc = ClassRef(o.kind if o.kind in ("list", "dict", "set") else "object")
            out.append((g, C(oc)))
        else:
            k = P.kind(b)
            if k.startswith("enum:"):
                cls = b.v.cls if isinstance(b, C) else b.cls
                out.append((g, C(ClassRef(cls))))
            elif k.startswith("opaque:") or k == "pyobj":
                out.append((g, C(ClassRef("foreign:" + k))))
            else:
                out.append((g, C(ClassRef({"none": "NoneType", "float": "float"}.get(k, k)))))
    return eng.ok(st, mk_union(out))


@bf("len")
def _len(eng, st, recv, args, kwargs):
    return eng.prim(st, P.s_len, args[0])


@bf("hasattr")
def _hasattr(eng, st, recv, args, kwargs):
    v, name = args
    nm = py_of(name)
    res = []
    sentinel = C(Builtin("<missing>"))
    for s, (tag, r) in eng.getattr_v(st, v, nm, default=sentinel):
        if tag == RAISE:
            res.append((s, (VAL, FALSE)))
        else:
            missing = P.eq(s, r, sentinel) if not isinstance(r, U) else zor(*[g for g, b in r.alts if b is sentinel])
            res.append((s, (VAL, P.mk_bool(znot(missing)))))
    return res


@bf("getattr")
def _getattr(eng, st, recv, args, kwargs):
    v, name = args[0], args[1]
    default = args[2] if len(args) > 2 else None
    if not is_concrete(name):
        raise OutOfSubset("getattr with symbolic name")
    return eng.getattr_v(st, v, py_of(name), default)


@bf("setattr")
def _setattr(eng, st, recv, args, kwargs):
    v, name, val = args
    if not is_concrete(name):
        raise OutOfSubset("setattr with symbolic name")
    return eng.setattr_v(st, v, py_of(name), val)


@bf("object.__setattr__")
def _obj_setattr(eng, st, recv, args, kwargs):
    if recv is not None:
        v, name, val = recv, args[0], args[1]
    else:
        v, name, val = args
    if not is_concrete(name):
        raise OutOfSubset("object.__setattr__ with symbolic name")
    return setattr_base(eng, st, v, py_of(name), val, raw=True)


BUILTIN_FUNCS["object.__init__"] = _noop
BUILTIN_FUNCS["object.__enter__"] = _noop
BUILTIN_FUNCS["object.__exit__"] = _noop


@bf("typing.cast")
def _cast(eng, st, recv, args, kwargs):
    return eng.ok(st, args[1])


for _n in ("List", "Dict", "Optional", "Tuple", "Any", "Callable", "Set", "Union", "Sequence", "Generator", "BinaryIO",
           "TYPE_CHECKING", "overload", "ABC", "abstractmethod", "dataclass", "strict", "Iterator", "IO", "Type", "NamedTuple"):
    BUILTIN_FUNCS["typing." + _n] = _noop


@bf("str")
def _str(eng, st, recv, args, kwargs):
    if not args:
        return eng.ok(st, C(""))
    return eng.prim(st, P.to_str, args[0])


@bf("repr")
def _repr(eng, st, recv, args, kwargs):
    return eng.ok(st, P.fresh("str", "repr"))


@bf("bool")
def _bool(eng, st, recv, args, kwargs):
    if not args:
        return eng.ok(st, FALSE)
    t = P.truth(st, args[0])
    return eng.flush(st, P.mk_bool(t))


@bf("int")
def _int(eng, st, recv, args, kwargs):
    (v,) = args
    if P.is_int_like(v):
        return eng.ok(st, S("int", P.int_of(v)) if not isinstance(v, C) else C(int(v.v)))
    if isinstance(v, S) and v.sort == "real":
        return eng.ok(st, S("int", z3.If(v.t >= 0, z3.ToInt(v.t), -z3.ToInt(-v.t))))
    if isinstance(v, C) and isinstance(v.v, Fraction):
        return eng.ok(st, C(int(v.v)))
    raise OutOfSubset("int() of %r" % (v,))


@bf("float")
def _float(eng, st, recv, args, kwargs):
    (v,) = args
    r = P.real_of(v)
    if r is None:
        raise OutOfSubset("float() of %r" % (v,))
    return eng.ok(st, C(Fraction(v.v)) if isinstance(v, C) else S("real", r))


@bf("round")
def _round(eng, st, recv, args, kwargs):
    return eng.ok(st, P.fresh("real", "round"))


@bf("id")
def _id(eng, st, recv, args, kwargs):
    if args and isinstance(args[0], R) and st.obj(args[0]).meta.get("tag") == "cachenode":
        # identity of a heap object of the cache fixture: equal exactly for the same object
        return eng.ok(st, C(1000 + args[0].addr))
    v = P.fresh("int", "id")
    st.axiom(v.t > 0)
    return eng.ok(st, v)


@bf("min")
def _min(eng, st, recv, args, kwargs):
    vals = args if len(args) > 1 else eng.iter_concrete(st, args[0])
    if not vals:
        return [eng.raise_new(st, "ValueError", "min() arg is an empty sequence")]
    return eng.prim(st, P.minmax, "min", list(vals))


@bf("max")
def _max(eng, st, recv, args, kwargs):
    vals = args if len(args) > 1 else eng.iter_concrete(st, args[0])
    if not vals:
        return [eng.raise_new(st, "ValueError", "max() arg is an empty sequence")]
    return eng.prim(st, P.minmax, "max", list(vals))


@bf("list")
def _list(eng, st, recv, args, kwargs):
    if not args:
        return eng.ok(st, st.alloc(HObj("list", "list")))
    v = args[0]
    if isinstance(v, R) and st.obj(v).kind == "abslist":
        return eng.ok(st, v)
    return eng.ok(st, st.alloc(HObj("list", "list", items=list(eng.iter_concrete(st, v)))))


@bf("tuple")
def _tuple(eng, st, recv, args, kwargs):
    if not args:
        return eng.ok(st, T([]))
    v = args[0]
    if isinstance(v, R) and st.obj(v).kind == "abslist":
        return eng.ok(st, v)
    return eng.ok(st, T(eng.iter_concrete(st, v)))


@bf("dict")
def _dict(eng, st, recv, args, kwargs):
    d = st.alloc(HObj("dict", "dict"))
    if args:
        src = args[0]
        if isinstance(src, R) and st.obj(src).kind == "dict":
            st.obj(d).items = [list(x) for x in st.obj(src).items]
        else:
            raise OutOfSubset("dict() from %r" % (src,))
    for k, v in kwargs.items():
        dict_set(eng, st, d, C(k), v)
    return eng.ok(st, d)


@bf("set")
def _set(eng, st, recv, args, kwargs):
    if not args:
        return eng.ok(st, st.alloc(HObj("set", "set")))
    vals = eng.iter_concrete(st, args[0])
    try:
        return eng.ok(st, make_set(eng, st, vals))
    except OutOfSubset:
        r = set_from_maybe_equal(eng, st, vals)
        if r is None:
            raise
        return r


@bf("sorted")
def _sorted(eng, st, recv, args, kwargs):
    seq = args[0]
    if isinstance(seq, R) and (st.obj(seq).kind == "abslist" or "iter" in st.obj(seq).meta):
        h = eng.handlers.get("sorted_abslist")
        if h is None:
            raise OutOfSubset("sorted() over an abstract collection needs a model")
        return h(eng, st, seq, args, kwargs)
    items = eng.iter_concrete(st, seq)
    key = kwargs.get("key")
    if len(items) > 3:
        raise OutOfSubset("sorted() of more than 3 symbolic items")
    # compute keys
    outs = [(st, (VAL, []))]
    for it in items:
        def step(s, acc, it=it):
            if key is None:
                return eng.ok(s, acc + [it])
            return eng.bind(eng.call_value(s, key, [it], {}), lambda s2, kv: eng.ok(s2, acc + [kv]))
        outs = eng.bind(outs, step)

    def fin(s, keys):
        # insertion sort with forks (stable)
        order = [[]]
        states = [(s, [])]
        for i in range(len(items)):
            nstates = []
            for s2, cur in states:
                # insert i after all elements with key <= key_i  (stable)
                pos_states = [(s2, len(cur))]
                final = []
                while pos_states:
                    s3, pos = pos_states.pop()
                    if pos == 0:
                        final.append((s3, 0))
                        continue
                    j = cur[pos - 1]
                    c = P.compare(s3, ">", keys[j], keys[i])
                    cond = P.truth(s3, c)
                    outs3 = eng.flush(s3, None)
                    for s4, (t4, _) in outs3:
                        if t4 == RAISE:
                            raise OutOfSubset("exception comparing sort keys")
                        for s5, b in eng.branch(s4, cond):
                            if b:
                                pos_states.append((s5, pos - 1))
                            else:
                                final.append((s5, pos))
                for s3, pos in final:
                    nstates.append((s3, cur[:pos] + [i] + cur[pos:]))
            states = nstates
        res = []
        for s2, cur in states:
            res.append((s2, (VAL, s2.alloc(HObj("list", "list", items=[items[k] for k in cur])))))
        return res
    return eng.bind(outs, fin)


@bf("enumerate")
def _enumerate(eng, st, recv, args, kwargs):
    items = eng.iter_concrete(st, args[0])
    return eng.ok(st, T([T([C(i), x]) for i, x in enumerate(items)]))


@bf("zip")
def _zip(eng, st, recv, args, kwargs):
    seqs = [eng.iter_concrete(st, a) for a in args]
    return eng.ok(st, T([T(list(xs)) for xs in zip(*seqs)]))


@bf("range")
def _range(eng, st, recv, args, kwargs):
    if not all(is_concrete(a) for a in args):
        raise OutOfSubset("symbolic range")
    return eng.ok(st, T([C(i) for i in range(*[py_of(a) for a in args])]))


@bf("all")
def _all(eng, st, recv, args, kwargs):
    v = args[0]
    if isinstance(v, R) and st.obj(v).kind == "abslist":
        raise OutOfSubset("all() over abstract list")
    items = eng.iter_concrete(st, v)
    t = zand(*[P.truth(st, x) for x in items])
    return eng.flush(st, P.mk_bool(t))


@bf("any")
def _any(eng, st, recv, args, kwargs):
    items = eng.iter_concrete(st, args[0])
    t = zor(*[P.truth(st, x) for x in items])
    return eng.flush(st, P.mk_bool(t))


@bf("iter")
def _iter(eng, st, recv, args, kwargs):
    v = args[0]
    if isinstance(v, R) and st.obj(v).kind == "iter":
        return eng.ok(st, v)
    return eng.ok(st, st.alloc(HObj("iter", "iter", items=list(eng.iter_concrete(st, v)))))


@bf("next")
def _next(eng, st, recv, args, kwargs):
    it = args[0]
    if not (isinstance(it, R) and st.obj(it).kind == "iter"):
        raise OutOfSubset("next() on %r" % (it,))
    o = st.obj(it)
    if not o.items:
        if len(args) > 1:
            return eng.ok(st, args[1])
        return [eng.raise_new(st, "StopIteration", "")]
    v = o.items.pop(0)
    st.touch(o)
    return eng.ok(st, v)


@bf("print")
def _print(eng, st, recv, args, kwargs):
    return eng.ok(st, NONE)


@bf("bytes")
def _bytes(eng, st, recv, args, kwargs):
    if args and is_concrete(args[0]) and (len(args) == 1 or is_concrete(args[1])):
        try:
            return eng.ok(st, C(bytes(*[py_of(a) for a in args])))
        except Exception:
            pass
    if len(args) == 2 and (P.is_str(args[0]) or (isinstance(args[0], U) and any(P.is_str(b_) for _, b_ in args[0].alts))):
        # bytes(text, encoding): a token that remembers the text (an injective encoding)
        return eng.ok(st, st.alloc(HObj("opaque", None, fields={"utf8": args[0]}, meta={"tag": "bytes_token"})))
    return eng.ok(st, P.fresh("Bytes", "bytes"))


def bytes_token_concat(eng, st, a, b):
    """a + b for byte tokens (encoded text, packed data): a token that remembers both parts"""
    return st.alloc(HObj("opaque", None, fields={"parts": T([a, b])}, meta={"tag": "bytes_token"}))


def is_bytes_token(st, v):
    return isinstance(v, R) and st.obj(v).kind == "opaque" and st.obj(v).meta.get("tag") in ("bytes_token", "packed")


@bf("hashlib.md5")
def _md5(eng, st, recv, args, kwargs):
    """hashlib.md5(data).digest().hex(): some string; the call is logged with its argument"""
    from .engine import Effect
    st.effects.append(Effect("hash", "md5", list(args), {}, None))
    hexs = P.fresh("str", "md5.hex")
    st.axiom(z3.Length(hexs.t) == 32)
    hexer = st.alloc(HObj("opaque", None, meta={"tag": "digest", "methods": {"hex": lambda e, s_, r, a, k: e.ok(s_, hexs)}}))
    return eng.ok(st, st.alloc(HObj("opaque", None, meta={"tag": "md5", "methods": {"digest": lambda e, s_, r, a, k: e.ok(s_, hexer),
                                                                              "hexdigest": lambda e, s_, r, a, k: e.ok(s_, hexs)}})))


# ---- str methods ----

def _strm(name):
    """register a pure string method `fn(eng, st, base_str_value, args) -> V`, lifted over unions
    (receiver alternatives that are None raise AttributeError)"""
    def deco(pure):
        def m(eng, st, recv, args, kwargs):
            if kwargs:
                raise OutOfSubset("keyword arguments to str.%s" % name)
            out = []
            for g, b in alts(recv):
                if not P.is_str(b):
                    st.pend(g, "AttributeError", "'%s' object has no attribute '%s'" % (P.kind(b), name))
                    continue
                n0 = len(st.pending)
                v = pure(eng, st, b, args)
                st.pending[n0:] = [(zand(g, pg), e, msg) for pg, e, msg in st.pending[n0:]]
                out.append((g, v))
            if not out:
                return eng.flush(st, NONE)
            return eng.prim(st, lambda s: mk_union(out))
        BUILTIN_FUNCS["str." + name] = m
        return m
    return deco


def _str_arg(eng, st, v, what):
    """split a value into (string alternatives, non-string guard)"""
    ok, bad = [], []
    for g, b in alts(v):
        if P.is_str(b):
            ok.append((g, b))
        else:
            bad.append(g)
    return ok, zor(*bad)


def _lift_arg(st, v, fn, what):
    ok, bad = _str_arg(None, st, v, what)
    st.pend(bad, "TypeError", "%s argument must be str" % what)
    if not ok:
        return NONE
    return mk_union([(g, fn(b)) for g, b in ok])


@_strm("rstrip")
def _rstrip(eng, st, recv, args):
    if not args:
        raise OutOfSubset("strip() without argument")
    return P.s_strip(st, recv, args[0], "r")


@_strm("lstrip")
def _lstrip(eng, st, recv, args):
    if not args:
        raise OutOfSubset("strip() without argument")
    return P.s_strip(st, recv, args[0], "l")


@_strm("strip")
def _strip(eng, st, recv, args):
    if not args:
        raise OutOfSubset("strip() without argument")
    return P.s_strip(st, recv, args[0], "b")


@_strm("replace")
def _replace(eng, st, recv, args):
    return P.s_replace(st, recv, args[0], args[1])


@_strm("lower")
def _lower(eng, st, recv, args):
    return P.s_lower(st, recv)


@_strm("upper")
def _upper(eng, st, recv, args):
    if isinstance(recv, C):
        return C(recv.v.upper())
    return P.fresh("str", "upper")


@_strm("find")
def _find(eng, st, recv, args):
    return P.s_find(st, recv, args[0], False)


@_strm("rfind")
def _rfind(eng, st, recv, args):
    return P.s_find(st, recv, args[0], True)


@_strm("startswith")
def _startswith(eng, st, recv, args):
    return _lift_arg(st, args[0], lambda b: P.s_startswith(st, recv, b), "startswith")


@_strm("endswith")
def _endswith(eng, st, recv, args):
    return _lift_arg(st, args[0], lambda b: P.s_startswith(st, recv, b, ends=True), "endswith")


@_strm("join")
def _join(eng, st, recv, args):
    items = eng.iter_concrete(st, args[0])
    if not items:
        return C("")
    acc = items[0]
    for g, b in alts(acc):
        if not P.is_str(b):
            st.pend(g, "TypeError", "sequence item: expected str instance")
    for it in items[1:]:
        for g, b in alts(it):
            if not P.is_str(b):
                st.pend(g, "TypeError", "sequence item: expected str instance")
        acc = P.binop(st, "+", P.binop(st, "+", acc, recv), it)
    return acc


@_strm("encode")
def _encode(eng, st, recv, args):
    if isinstance(recv, C):
        return C(recv.v.encode(*[py_of(a) for a in args]))
    f = z3.Function("str_encode", P.StrS, P.opaque_sort("Bytes"))
    return O("Bytes", f(recv.t))


@_strm("format")
def _format(eng, st, recv, args):
    return P.fresh("str", "fmt")


# ---- list / dict / set methods ----

@bf("list.append")
def _l_append(eng, st, recv, args, kwargs):
    st.obj(recv).items.append(args[0])
    st.touch(st.obj(recv))
    return eng.ok(st, NONE)


@bf("list.extend")
def _l_extend(eng, st, recv, args, kwargs):
    st.obj(recv).items.extend(eng.iter_concrete(st, args[0]))
    st.touch(st.obj(recv))
    return eng.ok(st, NONE)


@bf("list.pop")
def _l_pop(eng, st, recv, args, kwargs):
    o = st.obj(recv)
    if not o.items:
        return [eng.raise_new(st, "IndexError", "pop from empty list")]
    i = py_of(args[0]) if args else -1
    v = o.items.pop(i)
    st.touch(o)
    return eng.ok(st, v)


@bf("list.copy")
def _l_copy(eng, st, recv, args, kwargs):
    return eng.ok(st, st.alloc(HObj("list", "list", items=list(st.obj(recv).items))))


@bf("dict.get")
def _d_get(eng, st, recv, args, kwargs):
    return dict_get(eng, st, recv, args[0], args[1] if len(args) > 1 else None)


@bf("dict.pop")
def _d_pop(eng, st, recv, args, kwargs):
    if len(args) > 1:
        return dict_pop(eng, st, recv, args[0], args[1])
    return dict_pop(eng, st, recv, args[0], None, raise_missing=True)


@bf("dict.update")
def _d_update(eng, st, recv, args, kwargs):
    """d.update(other) for a closed dict `other` whose items are certainly present"""
    if len(args) != 1 or kwargs or not isinstance(args[0], R) or st.obj(args[0]).kind != "dict":
        raise OutOfSubset("dict.update with this argument shape")
    o = st.obj(args[0])
    if o.meta.get("open") or not all(z3.is_true(it[2]) for it in o.items):
        raise OutOfSubset("dict.update from a dict with uncertain items")
    for k, v, _ in list(o.items):
        dict_set(eng, st, recv, k, v)
    return eng.ok(st, NONE)


@bf("dict.items")
def _d_items(eng, st, recv, args, kwargs):
    o = st.obj(recv)
    if not all(z3.is_true(it[2]) for it in o.items):
        raise OutOfSubset("items() of dict with symbolic membership")
    return eng.ok(st, T([T([k, v]) for k, v, _ in o.items]))


@bf("dict.keys")
def _d_keys(eng, st, recv, args, kwargs):
    o = st.obj(recv)
    if not all(z3.is_true(it[2]) for it in o.items):
        raise OutOfSubset("keys() of dict with symbolic membership")
    return eng.ok(st, T([k for k, v, _ in o.items]))


@bf("dict.values")
def _d_values(eng, st, recv, args, kwargs):
    o = st.obj(recv)
    if not all(z3.is_true(it[2]) for it in o.items):
        raise OutOfSubset("values() of dict with symbolic membership")
    return eng.ok(st, T([v for k, v, _ in o.items]))


@bf("dict.copy")
def _d_copy(eng, st, recv, args, kwargs):
    d = st.alloc(HObj("dict", "dict"))
    st.obj(d).items = [list(x) for x in st.obj(recv).items]
    return eng.ok(st, d)


@bf("dict.setdefault")
def _d_setdefault(eng, st, recv, args, kwargs):
    k, dv = args[0], (args[1] if len(args) > 1 else NONE)
    has = dict_contains(eng, st, recv, k)
    res = []
    for s, b in eng.branch(st, has):
        if b:
            res.extend(dict_get(eng, s, recv, k, None, raise_missing=True))
        else:
            dict_set(eng, s, recv, k, dv)
            res.append((s, (VAL, dv)))
    return res


@bf("set.add")
def _s_add(eng, st, recv, args, kwargs):
    o = st.obj(recv)
    if "add" in o.meta:
        return o.meta["add"](eng, st, recv, args[0])
    _set_add(eng, st, o, args[0])
    return eng.ok(st, NONE)


@bf("set.discard")
def _s_discard(eng, st, recv, args, kwargs):
    o = st.obj(recv)
    keep = []
    for x in o.items:
        same = P.eq(st, x, args[0])
        if z3.is_true(same):
            continue
        if not z3.is_false(same):
            raise OutOfSubset("set.discard with symbolic aliasing")
        keep.append(x)
    o.items = keep
    st.touch(o)
    return eng.ok(st, NONE)


@bf("set.clear")
def _s_clear(eng, st, recv, args, kwargs):
    st.obj(recv).items = []
    st.touch(st.obj(recv))
    return eng.ok(st, NONE)


BUILTIN_FUNCS["list.clear"] = _s_clear


@bf("set.copy")
def _s_copy(eng, st, recv, args, kwargs):
    return eng.ok(st, st.alloc(HObj("set", "set", items=list(st.obj(recv).items))))


# ---- externals ----

@bf("time.time")
def _time(eng, st, recv, args, kwargs):
    h = eng.handlers.get("clock")
    if h is not None:
        return h(eng, st, recv, args, kwargs)
    st.note("time.time(): fresh positive real on every call (no monotonicity assumed)")
    v = P.fresh("real", "now")
    st.axiom(v.t > 0)
    return eng.ok(st, v)


BUILTIN_FUNCS["time.monotonic"] = _time


@bf("time.sleep")
def _sleep(eng, st, recv, args, kwargs):
    st.effects.append(_effect("time", "sleep", args))
    return eng.ok(st, NONE)


def _effect(recv, method, args, kwargs=None, result=None, tag=None):
    from .engine import Effect
    return Effect(recv, method, list(args), kwargs, result, tag)


@bf("copy.copy")
def _copycopy(eng, st, recv, args, kwargs):
    v = args[0]
    if isinstance(v, R):
        o = st.obj(v)
        if o.kind in ("obj", "list", "dict", "set"):
            n = o.copy()
            n.meta = dict(o.meta)
            n.meta.pop("ident", None)
            return eng.ok(st, st.alloc(n))
    raise OutOfSubset("copy.copy of %r" % (v,))


@bf("random.random")
def _random(eng, st, recv, args, kwargs):
    return eng.ok(st, P.fresh("real", "rand"))


@bf("os.urandom")
def _urandom(eng, st, recv, args, kwargs):
    return eng.ok(st, P.fresh("Bytes", "urandom"))


@bf("abslist.append")
def _al_append(eng, st, recv, args, kwargs):
    o = st.obj(recv)
    o.meta = dict(o.meta)
    o.meta["nonempty"] = BT
    o.meta["known"] = list(o.meta["known"]) + [args[0]]
    st.touch(o)
    return eng.ok(st, NONE)


@bf("open")
def _open(eng, st, recv, args, kwargs):
    """open(): an abstract handle, or FileNotFoundError / PermissionError / OSError"""
    res = []
    s2 = st.clone()
    ex = eng.sym_exc(s2, [ClassRef("FileNotFoundError"), ClassRef("PermissionError"), ClassRef("OSError")], prefix="open.exc")
    res.append((s2, (RAISE, ex)))
    noop = lambda e, s, r, a, k: e.ok(s, NONE)
    fh = st.alloc(HObj("opaque", None, meta={"tag": "file", "methods": {"close": noop, "seek": noop, "write": noop,
                                                                       "read": lambda e, s, r, a, k: e.ok(s, P.fresh("Bytes", "read"))}}))
    res.append((st, (VAL, fh)))
    return res


@bf("os.path.exists")
def _os_exists(eng, st, recv, args, kwargs):
    return eng.ok(st, P.fresh("bool", "os.path.exists"))


def _os_effect(name):
    def f(eng, st, recv, args, kwargs):
        res = []
        s2 = st.clone()
        ex = eng.sym_exc(s2, [ClassRef("FileNotFoundError"), ClassRef("PermissionError"), ClassRef("OSError"), ClassRef("FileExistsError")], prefix=name + ".exc")
        res.append((s2, (RAISE, ex)))
        res.append((st, (VAL, NONE)))
        return res
    return f


for _n in ("os.rename", "os.unlink", "os.mkdir", "os.remove", "shutil.rmtree"):
    BUILTIN_FUNCS[_n] = _os_effect(_n)


@bf("os.path.join")
def _os_join(eng, st, recv, args, kwargs):
    return eng.ok(st, P.fresh("str", "os.path.join"))


BUILTIN_FUNCS["os.path.dirname"] = _os_join
BUILTIN_FUNCS["os.path.basename"] = _os_join
BUILTIN_FUNCS["tempfile.mkdtemp"] = _os_join


@bf("logging.getLevelName")
def _getlevelname(eng, st, recv, args, kwargs):
    return eng.ok(st, C(5))


BUILTIN_FUNCS["logging.addLevelName"] = _noop


@bf("threading.current_thread")
def _threading_current_thread(eng, st, recv, args, kwargs):
    """the calling thread: one fixed opaque object per lemma (a lemma runs in a single thread)"""
    if "current_thread" not in st.ghost:
        st.ghost["current_thread"] = st.alloc(HObj("opaque", None, meta={"tag": "thread", "name": "caller"}))
    return eng.ok(st, st.ghost["current_thread"])


@bf("threading.RLock")
def _threading_rlock(eng, st, recv, args, kwargs):
    return eng.ok(st, st.alloc(HObj("opaque", None, meta={"tag": "lock"})))


@bf("threading.Event")
def _threading_event(eng, st, recv, args, kwargs):
    noop = lambda e, s, r, a, k: e.ok(s, NONE)
    return eng.ok(st, st.alloc(HObj("opaque", None, meta={"tag": "event", "methods": {
        "set": noop, "clear": noop, "wait": lambda e, s, r, a, k: e.ok(s, P.fresh("bool", "event.wait"))}})))
