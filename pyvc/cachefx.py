"""Symbolic fixture for cloudsync.hierarchical_cache (C19, deductive part).

`Cache` is a HierarchicalCache whose id map (`_oid_to_node`) is an *open* dict: the binding of the root id is known,
every other key may be bound to some arbitrary node (materialised on first access) -- so a statement proved over this
fixture holds for every content of the id map.  Nodes are objects of the repository's own `Node` class with arbitrary
field values; `cache_node(c, "n")` yields a non-root node hanging under an arbitrary directory node.

Assumed representation facts (the part of the coherence invariant the lemmas rely on, not proved here -- the bounded
stand-in contracts/bounded_cache.py checks it on operation sequences): a node found in the id map under key k carries
id k; a node's parent link (weak reference) is alive.
"""
import z3
from .values import (C, S, E, O, R, T, U, NONE, TRUE, FALSE, BT, BF, zand, zor, znot, alts, mk_union, ite, py_of,
                     ClassRef)
from . import prims as P
from .prims import OutOfSubset
from .engine import HObj
from . import builtins as B


def _weakref_call(eng, st, fv, args, kwargs):
    return eng.ok(st, st.obj(fv).fields["target"])


def make_weakref(eng, st, target):
    return st.alloc(HObj("opaque", None, fields={"target": target}, meta={"tag": "weakref", "call": _weakref_call}))


@B.bf("weakref.ref")
def _weakref_ref(eng, st, recv, args, kwargs):
    """weakref.ref(x): a callable that yields x (the referent is assumed alive while the cache holds it in its tree)"""
    st.note("weakref.ref(x)() is x: referents are assumed alive")
    return eng.ok(st, make_weakref(eng, st, args[0]))


def make_node(eng, st, prov, prefix, parent=None, is_root=False, oid=None, directory=None, open_children=True):
    from . import world
    ncls = world.cls(eng, "cloudsync.hierarchical_cache:Node")
    p = P.fresh_name(prefix)
    if oid is None:
        oid = world.opt(p + ".oid", world.named("str", p + ".oid"))
    if directory is True:
        otype = world.enum_member(eng, "cloudsync.types:OType", "DIRECTORY")
    elif directory is False:
        otype = world.enum_member(eng, "cloudsync.types:OType", "FILE")
    else:
        otype = world.fresh_enum(eng, st, "cloudsync.types:OType", p + ".type")
    children = st.alloc(HObj("dict", "dict", meta={"open": open_children, "gen": lambda e_, s_, k_: make_node(e_, s_, prov, "child"),
                                                   "tag": "children"}))
    md = st.alloc(HObj("dict", "dict"))
    return st.alloc(HObj("obj", ncls, fields={
        "_oid": oid, "wr_parent": make_weakref(eng, st, parent) if parent is not None else NONE,
        "name": C("") if is_root else world.named("str", p + ".name"), "metadata": md, "_provider": prov,
        "children": children, "type": otype, "is_root": TRUE if is_root else FALSE}, meta={"tag": "cachenode", "prefix": p}))


def make_node_stub(name, maybe_none):
    """opaque callee that yields some node of the cache (arbitrary fields, hanging under an arbitrary directory) -- or,
    with `maybe_none`, nothing; the call is logged"""
    short = name.split(".")[-1]

    def h(eng, st, self_v, args, kwargs):
        from .engine import Effect
        eff = Effect("mgr", short, list(args), dict(kwargs), None, tag=BT)
        st.effects.append(eff)
        prov = st.obj(self_v).fields["_provider"]
        parent = make_node(eng, st, prov, short + ".parent", directory=True)
        n = make_node(eng, st, prov, short + ".node", parent=parent)
        st.obj(n).fields["is_root"] = P.fresh("bool", short + ".node.is_root")
        if maybe_none:
            isn = z3.Bool(P.fresh_name(short + "?none"))
            rv = mk_union([(isn, NONE), (znot(isn), n)])
        else:
            rv = n
        eff.result = rv
        return eng.ok(st, rv)
    return h


def fx_cache(eng, st, pname):
    from . import world, fixtures
    world.install_provider_api(eng)
    fixtures.install_normalize_path_model(eng)
    for nm in eng.cur_lemma.opts.get("inline", ()):
        eng.handlers.pop(nm, None)
    for nm in list(eng.cur_lemma.opts.get("stubs", {})) + list(eng.cur_lemma.opts.get("inline", ())):
        world._require_function(eng, nm)
    for nm, spec in eng.cur_lemma.opts.get("stubs", {}).items():
        if "node?" in spec.get("results", ()) or "node" in spec.get("results", ()):
            eng.handlers[nm] = make_node_stub(nm, maybe_none="node?" in spec["results"])
        else:
            eng.handlers[nm] = world.make_stub(nm, tuple(spec.get("results", ("None",))), spec.get("raises", False), False)
        cname, _, meth = nm.partition(":")[2].partition(".")
        if meth.startswith("_%s__" % cname):      # private method: the engine resolves it under its unmangled name
            eng.handlers[nm.replace("." + meth, "." + meth[len(cname) + 1:])] = eng.handlers[nm]
    prov = world.make_provider(eng, st, 0)
    root_oid = world.named("str", "cache.root_oid")
    st.axiom(z3.Length(root_oid.t) > 0)
    root = make_node(eng, st, prov, "root", is_root=True, oid=root_oid, directory=True)

    def gen(e_, s_, k_):
        # representation fact assumed: the node bound under key k carries id k
        return make_node(e_, s_, prov, "mapped", oid=k_)
    idmap = st.alloc(HObj("dict", "dict", items=[[root_oid, root, BT]], meta={"open": True, "gen": gen, "tag": "idmap"}))
    tmpl = st.alloc(HObj("dict", "dict"))
    ccls = world.cls(eng, "cloudsync.hierarchical_cache:HierarchicalCache")
    r = st.alloc(HObj("obj", ccls, fields={"_root": root, "_oid_to_node": idmap, "_provider": prov,
                                           "_metadata_template": tmpl, "_oid_type": C(ClassRef("str"))},
                      meta={"tag": "cache"}))
    st.note("cache fixture: the id map is an open map of arbitrary content; ASSUMED representation facts: a node bound under key k "
            "carries id k, weak parent references are alive (weakref.ref(x)() is x), children maps are open maps")
    for nm in eng.cur_lemma.opts.get("stubs", {}):
        st.note("%s is an arbitrary callee in lemma %s (logged, result arbitrary; its own body is not under this lemma)"
                % (nm.split(":")[1], eng.cur_lemma.name))
    eng.inputs[pname] = "cache"
    return r


def _b_cache_node(eng, st, recv, args, kwargs):
    """cache_node(c, name): an arbitrary non-root node hanging under an arbitrary directory node of the cache"""
    c = args[0]
    nm = py_of(args[1]) if len(args) > 1 else "n"
    prov = st.obj(c).fields["_provider"]
    parent = make_node(eng, st, prov, nm + ".parent", directory=True)
    po = st.obj(parent)
    po.fields["is_root"] = P.fresh("bool", nm + ".parent.is_root")
    n = make_node(eng, st, prov, nm, parent=parent)
    # the parent may or may not list the node under its name (a lemma assumes it where it needs it)
    ch = st.obj(po.fields["children"])
    ch.items.append([st.obj(n).fields["name"], n, z3.Bool(P.fresh_name(nm + ".listed"))])
    return eng.ok(st, n)


def _b_id_map(eng, st, recv, args, kwargs):
    """id_map(c, k): the node bound under k in the cache's id map, or None"""
    c, k = args
    return B.dict_get(eng, st, st.obj(c).fields["_oid_to_node"], k, NONE)


B.BUILTIN_FUNCS["cache_node"] = _b_cache_node
B.BUILTIN_FUNCS["id_map"] = _b_id_map


def install(eng):
    eng.fixtures["Cache"] = fx_cache
