"""Concrete (CPython) execution of lemmas on the real code: replay of counterexamples and the
bounded search used when an obligation is undecided.

    python -m pyvc.concrete '<json>'      one run:   {"file","lemma","config","inputs"}
    python -m pyvc.concrete --search '<json>'  search: {"file","lemma","config","budget","seed","want"}
"""
import importlib.util
import itertools
import json
import os
import random
import sys
import traceback

HERE = os.path.dirname(os.path.dirname(os.path.abspath(__file__)))
REPO = os.environ.get("VERIF_REPO", "/repo")
if HERE not in sys.path:
    sys.path.insert(0, HERE)
if REPO not in sys.path:
    sys.path.insert(0, REPO)

from pyvc import dsl  # noqa: E402

_mods = {}


def load_module(path):
    full = os.path.join(HERE, path)
    if full not in _mods:
        name = "contracts_concrete_" + os.path.splitext(os.path.basename(path))[0]
        spec = importlib.util.spec_from_file_location(name, full)
        m = importlib.util.module_from_spec(spec)
        spec.loader.exec_module(m)
        _mods[full] = m
    return _mods[full]


def get_config(lemma_fn, cfg_index):
    from pyvc import fixtures_concrete as FC
    return FC.config_for(lemma_fn, cfg_index)


def build_args(fn, cfg, inputs):
    from pyvc import fixtures_concrete as FC
    import inspect
    args = []
    for pname, par in inspect.signature(fn).parameters.items():
        ann = par.annotation if isinstance(par.annotation, str) else getattr(par.annotation, "__name__", str(par.annotation))
        if ann in FC.FIXTURES:
            args.append(FC.FIXTURES[ann](cfg, pname, inputs))
        else:
            args.append(inputs.get(pname))
    return args


def enc(x):
    """JSON-safe encoding of inputs (bytes and tuples survive a round trip through the replay file)"""
    if isinstance(x, bytes):
        return {"__bytes__": x.hex()}
    if isinstance(x, tuple):
        return {"__tuple__": [enc(i) for i in x]}
    if isinstance(x, list):
        return [enc(i) for i in x]
    if isinstance(x, dict):
        return {k: enc(v) for k, v in x.items()}
    return x


def dec(x):
    if isinstance(x, dict):
        if "__bytes__" in x:
            return bytes.fromhex(x["__bytes__"])
        if "__tuple__" in x:
            return tuple(dec(i) for i in x["__tuple__"])
        return {k: dec(v) for k, v in x.items()}
    if isinstance(x, list):
        return [dec(i) for i in x]
    return x


def run_once(path, lemma, cfg_index, inputs):
    """returns dict(outcome= 'pass' | 'skip' | 'check-failed' | 'exception', check=..., exc=...)"""
    inputs = dec(inputs)
    mod = load_module(path)
    fn = getattr(mod, lemma)
    cfg = get_config(fn, cfg_index)
    allowed = tuple(getattr(fn, "lemma_opts", {}).get("raises", ()))
    try:
        args = build_args(fn, cfg, inputs)
        del dsl.PASSED[:]
        fn(*args)
        return {"outcome": "pass", "passed": list(dsl.PASSED)}
    except dsl.Skip:
        return {"outcome": "skip"}
    except dsl.CheckFailed as e:
        return {"outcome": "check-failed", "check": e.name}
    except BaseException as e:    # noqa
        name = type(e).__name__
        if name in allowed or any(name == a for a in allowed) or any(c.__name__ in allowed for c in type(e).__mro__):
            return {"outcome": "pass", "raised": name}
        return {"outcome": "exception", "exc": name, "msg": str(e)[:300], "check": "no-exception:%s" % name,
                "trace": traceback.format_exc()[-1200:]}


ALPHABET = ["/", "\\", "a", "A", ".", ":", " ", "é", "b"]
TAGS = ["a", "b", ""]


def gen_value(rng, ann, small):
    if ann == "str":
        n = rng.choice([0, 1, 1, 2, 2, 3, 3, 4, 5]) if small else rng.randint(0, 12)
        return "".join(rng.choice(ALPHABET) for _ in range(n))
    if ann == "opt_str":
        return None if rng.random() < 0.15 else gen_value(rng, "str", small)
    if ann == "bool":
        return rng.random() < 0.5
    if ann == "int":
        return rng.choice([0, 1, 1, 2, 2, 3, 3, 4, 5, -1, 10, 100, rng.randint(-50, 50)])
    if ann == "float":
        return rng.choice([0.0, 1.0, 0.5, -1.0, 10.0, 1000.0, rng.uniform(-10, 2000)])
    if ann == "opt_float":
        return None if rng.random() < 0.2 else gen_value(rng, "float", small)
    return None


def search(path, lemma, cfg_index, budget, seed, want=None):
    import inspect
    from pyvc import fixtures_concrete as FC
    mod = load_module(path)
    fn = getattr(mod, lemma)
    rng = random.Random(seed * 7919 + 13)
    params = []
    for pname, par in inspect.signature(fn).parameters.items():
        ann = par.annotation if isinstance(par.annotation, str) else getattr(par.annotation, "__name__", str(par.annotation))
        params.append((pname, ann))
    evaluated = 0
    nontrivial = set()
    for i in range(budget):
        inputs = {}
        for pname, ann in params:
            if ann in FC.FIXTURES:
                g = FC.GENERATORS.get(ann)
                if g is not None:
                    inputs.update(g(rng, pname))
            else:
                inputs[pname] = gen_value(rng, ann, small=(i % 3 != 0))
        r = run_once(path, lemma, cfg_index, inputs)
        evaluated += 1
        if r["outcome"] != "skip":
            nontrivial.add(json.dumps(inputs, sort_keys=True, default=str))
        if r["outcome"] in ("check-failed", "exception"):
            if want is None or want == r.get("check") or (want.startswith("no-exception") and r["outcome"] == "exception"
                                                          and want.split("(")[0] == r.get("check")):
                return {"found": True, "inputs": enc(inputs), "result": r, "check": r.get("check"), "evaluated": evaluated,
                        "nontrivial": len(nontrivial)}
    return {"found": False, "evaluated": evaluated, "nontrivial": len(nontrivial)}


if __name__ == "__main__":
    if sys.argv[1] == "--search":
        a = json.loads(sys.argv[2])
        print(json.dumps(search(a["file"], a["lemma"], a["config"], a["budget"], a["seed"], a.get("want")), default=str))
    else:
        a = json.loads(sys.argv[1])
        print(json.dumps(run_once(a["file"], a["lemma"], a["config"], a["inputs"]), default=str))
