"""Primitive operations on symbolic values: truthiness, equality, arithmetic, strings.

Every operation takes the State `st` so that it can (a) add definitional axioms for the fresh
symbols it introduces to the path condition and (b) register conditional exceptions in
`st.pending` as (guard, exception-class-name, message).  The interpreter turns pending entries
into exception paths after each primitive step.
"""
from fractions import Fraction
import z3
from .values import (V, C, S, E, O, R, T, U, EnumMember, ClassRef, NONE, TRUE, FALSE, BT, BF,
                     zand, zor, znot, alts, mk_union, ite, is_concrete, py_of)


class OutOfSubset(Exception):
    """The code uses a construct the verifier does not model; never silently skipped."""


_counter = [0]


def fresh_name(prefix):
    _counter[0] += 1
    return "%s!%d" % (prefix, _counter[0])


def reset_names():
    _counter[0] = 0


StrS = z3.StringSort()
IntS = z3.IntSort()
RealS = z3.RealSort()
BoolS = z3.BoolSort()
_opaque_sorts = {}


def opaque_sort(name):
    if name not in _opaque_sorts:
        _opaque_sorts[name] = z3.DeclareSort(name)
    return _opaque_sorts[name]


def fresh(sort, prefix="v"):
    n = fresh_name(prefix)
    if sort == "str":
        return S("str", z3.String(n))
    if sort == "int":
        return S("int", z3.Int(n))
    if sort == "real":
        return S("real", z3.Real(n))
    if sort == "bool":
        return S("bool", z3.Bool(n))
    return O(sort, z3.Const(n, opaque_sort(sort)))


def const_term(py):
    if isinstance(py, bool):
        return S("bool", z3.BoolVal(py))
    if isinstance(py, int):
        return S("int", z3.IntVal(py))
    if isinstance(py, Fraction):
        return S("real", z3.RealVal(py))
    if isinstance(py, str):
        return S("str", z3.StringVal(py))
    raise OutOfSubset("no term for constant %r" % (py,))


def real_of(v):
    """numeric value -> z3 Real term (None if not numeric)."""
    if isinstance(v, U):
        terms = [(g, real_of(b)) for g, b in v.alts]
        if any(t is None for _, t in terms):
            return None
        acc = terms[-1][1]
        for g, t in reversed(terms[:-1]):
            acc = z3.If(g, t, acc)
        return acc
    if isinstance(v, C):
        if isinstance(v.v, bool):
            return z3.RealVal(int(v.v))
        if isinstance(v.v, (int, Fraction)):
            return z3.RealVal(v.v)
        return None
    if isinstance(v, S):
        if v.sort == "int":
            return z3.ToReal(v.t)
        if v.sort == "real":
            return v.t
        if v.sort == "bool":
            return z3.If(v.t, z3.RealVal(1), z3.RealVal(0))
    return None


def int_of(v):
    if isinstance(v, U):
        terms = [(g, int_of(b)) for g, b in v.alts]
        if any(t is None for _, t in terms):
            return None
        acc = terms[-1][1]
        for g, t in reversed(terms[:-1]):
            acc = z3.If(g, t, acc)
        return acc
    if isinstance(v, C):
        if isinstance(v.v, bool):
            return z3.IntVal(int(v.v))
        if isinstance(v.v, int):
            return z3.IntVal(v.v)
        return None
    if isinstance(v, S):
        if v.sort == "int":
            return v.t
        if v.sort == "bool":
            return z3.If(v.t, z3.IntVal(1), z3.IntVal(0))
    return None


def str_of(v):
    if isinstance(v, C) and isinstance(v.v, str):
        return z3.StringVal(v.v)
    if isinstance(v, S) and v.sort == "str":
        return v.t
    return None


def is_num(v):
    return (isinstance(v, C) and isinstance(v.v, (bool, int, Fraction))) or \
           (isinstance(v, S) and v.sort in ("int", "real", "bool"))


def is_int_like(v):
    return (isinstance(v, C) and isinstance(v.v, (bool, int))) or (isinstance(v, S) and v.sort in ("int", "bool"))


def is_str(v):
    return (isinstance(v, C) and isinstance(v.v, str)) or (isinstance(v, S) and v.sort == "str")


def kind(v):
    """coarse runtime type tag of a base (non-union) value."""
    if isinstance(v, C):
        x = v.v
        if x is None:
            return "none"
        if isinstance(x, bool):
            return "bool"
        if isinstance(x, int):
            return "int"
        if isinstance(x, Fraction):
            return "float"
        if isinstance(x, str):
            return "str"
        if isinstance(x, bytes):
            return "bytes"
        if isinstance(x, EnumMember):
            return "enum:" + x.cls.qualname
        return "pyobj"
    if isinstance(v, S):
        return {"bool": "bool", "int": "int", "real": "float", "str": "str"}[v.sort]
    if isinstance(v, E):
        return "enum:" + v.cls.qualname
    if isinstance(v, O):
        return "opaque:" + v.sort
    if isinstance(v, T):
        return "tuple"
    if isinstance(v, R):
        return "ref"
    if isinstance(v, U):
        return "union(" + ",".join(sorted(set(kind(b) for _, b in v.alts))) + ")"
    raise OutOfSubset("kind of %r" % (v,))


# ---------------------------------------------------------------------------------------------
# truthiness / equality
# ---------------------------------------------------------------------------------------------

def truth(st, v):
    """z3 Bool: Python truthiness of v. Registers pending ValueError for `never bool` enums."""
    res = []
    for g, b in alts(v):
        res.append(zand(g, _truth1(st, b, g)))
    return zor(*res)


def _truth1(st, v, g):
    if isinstance(v, C):
        x = v.v
        if isinstance(x, EnumMember):
            if getattr(x.cls, "bool_raises", False):
                st.pend(g, "ValueError", "never bool enums")
                return BT
            return BT
        if isinstance(x, (ClassRef,)) or not isinstance(x, (type(None), bool, int, Fraction, str, bytes, tuple)):
            return BT
        return BT if x else BF
    if isinstance(v, S):
        if v.sort == "bool":
            return v.t
        if v.sort == "int":
            return v.t != 0
        if v.sort == "real":
            return v.t != 0
        if v.sort == "str":
            return z3.Length(v.t) > 0
    if isinstance(v, E):
        if getattr(v.cls, "bool_raises", False):
            st.pend(g, "ValueError", "never bool enums")
        return BT
    if isinstance(v, O):
        f = z3.Function("truthy_" + v.sort, opaque_sort(v.sort), BoolS)
        return f(v.t)
    if isinstance(v, T):
        return BT if v.items else BF
    if isinstance(v, R):
        return st.obj_truth(v)
    raise OutOfSubset("truth of %r" % (v,))


def eq(st, a, b):
    """z3 Bool: Python `a == b` (for the value kinds of the subset; never raises)."""
    if a is b:
        return BT
    res = []
    for ga, x in alts(a):
        for gb, y in alts(b):
            g = zand(ga, gb)
            if z3.is_false(g):
                continue
            res.append(zand(g, _eq1(st, x, y)))
    return zor(*res)


def _eq1(st, x, y):
    if isinstance(x, C) and isinstance(y, C):
        xv, yv = x.v, y.v
        if isinstance(xv, EnumMember) or isinstance(yv, EnumMember):
            return BT if (isinstance(xv, EnumMember) and isinstance(yv, EnumMember) and xv == yv) else BF
        try:
            return BT if xv == yv else BF
        except Exception:
            return BF
    if is_num(x) and is_num(y):
        if is_int_like(x) and is_int_like(y):
            return int_of(x) == int_of(y)
        return real_of(x) == real_of(y)
    if is_str(x) and is_str(y):
        return str_of(x) == str_of(y)
    if isinstance(x, (E, C)) and isinstance(y, (E, C)) and (isinstance(x, E) or isinstance(y, E)):
        if isinstance(x, C):
            x, y = y, x
        # x is E
        if isinstance(y, E):
            return x.t == y.t if x.cls is y.cls else BF
        if isinstance(y.v, EnumMember) and y.v.cls is x.cls:
            return x.t == y.v.index
        return BF
    if isinstance(x, O) and isinstance(y, O):
        return x.t == y.t if x.sort == y.sort else BF
    if isinstance(x, T) and isinstance(y, T):
        if len(x.items) != len(y.items):
            return BF
        return zand(*[eq(st, p, q) for p, q in zip(x.items, y.items)])
    if isinstance(x, R) and isinstance(y, R):
        return st.obj_eq(x, y)
    # different kinds
    return BF


def identical(st, a, b):
    """Python `a is b`: identity for None/bools/enums/objects; == for str/int constants."""
    return eq(st, a, b)


def is_none(v):
    res = []
    for g, b in alts(v):
        if isinstance(b, C) and b.v is None:
            res.append(g)
    return zor(*res)


# ---------------------------------------------------------------------------------------------
# lifting helpers
# ---------------------------------------------------------------------------------------------

def lift1(st, fn, a):
    out = []
    for g, x in alts(a):
        out.append((g, fn(st, x, g)))
    return mk_union(out)


def lift2(st, fn, a, b):
    out = []
    for ga, x in alts(a):
        for gb, y in alts(b):
            g = zand(ga, gb)
            if z3.is_false(g):
                continue
            out.append((g, fn(st, x, y, g)))
    return mk_union(out)


def type_error(st, g, msg):
    st.pend(g, "TypeError", msg)
    return NONE


# ---------------------------------------------------------------------------------------------
# arithmetic and comparison
# ---------------------------------------------------------------------------------------------

def _arith(op):
    def f(st, x, y, g):
        if is_str(x) and is_str(y) and op == "+":
            if isinstance(x, C) and isinstance(y, C):
                return C(x.v + y.v)
            return S("str", z3.Concat(str_of(x), str_of(y)))
        if isinstance(x, T) and isinstance(y, T) and op == "+":
            return T(x.items + y.items)
        if isinstance(x, C) and isinstance(x.v, bytes) and isinstance(y, C) and isinstance(y.v, bytes) and op == "+":
            return C(x.v + y.v)
        if is_num(x) and is_num(y):
            if isinstance(x, C) and isinstance(y, C):
                try:
                    if op == "+":
                        return C(x.v + y.v)
                    if op == "-":
                        return C(x.v - y.v)
                    if op == "*":
                        return C(x.v * y.v)
                    if op == "/":
                        if y.v == 0:
                            st.pend(g, "ZeroDivisionError", "division by zero")
                            return NONE
                        return C(Fraction(x.v) / Fraction(y.v))
                except Exception as e:
                    raise OutOfSubset("constant arithmetic %s" % e)
            if op == "/":
                ry = real_of(y)
                st.pend(zand(g, ry == 0), "ZeroDivisionError", "division by zero")
                return S("real", real_of(x) / ry)
            if is_int_like(x) and is_int_like(y):
                a, b = int_of(x), int_of(y)
                return S("int", a + b if op == "+" else a - b if op == "-" else a * b)
            a, b = real_of(x), real_of(y)
            return S("real", a + b if op == "+" else a - b if op == "-" else a * b)
        if op == "%" and is_str(x):
            return fresh("str", "fmt")
        if isinstance(x, O) or isinstance(y, O):
            # arithmetic on foreign values: result unknown of the same sort
            return fresh(x.sort if isinstance(x, O) else y.sort, "oparith")
        return type_error(st, g, "unsupported operand type(s) for %s: %s and %s" % (op, kind(x), kind(y)))
    return f


def binop(st, op, a, b):
    return lift2(st, _arith(op), a, b)


def _cmp(op):
    def f(st, x, y, g):
        if is_num(x) and is_num(y):
            if is_int_like(x) and is_int_like(y):
                p, q = int_of(x), int_of(y)
            else:
                p, q = real_of(x), real_of(y)
            t = {"<": p < q, "<=": p <= q, ">": p > q, ">=": p >= q}[op]
            t = z3.simplify(t)
            return C(True) if z3.is_true(t) else C(False) if z3.is_false(t) else S("bool", t)
        if is_str(x) and is_str(y):
            if isinstance(x, C) and isinstance(y, C):
                return C({"<": x.v < y.v, "<=": x.v <= y.v, ">": x.v > y.v, ">=": x.v >= y.v}[op])
            p, q = str_of(x), str_of(y)
            t = {"<": p < q, "<=": p <= q, ">": q < p, ">=": q <= p}[op]
            return S("bool", t)
        if isinstance(x, T) and isinstance(y, T) and len(x.items) == len(y.items) and x.items:
            # lexicographic
            res = None
            for i in range(len(x.items) - 1, -1, -1):
                strict = "<" if op in ("<", "<=") else ">"
                last = i == len(x.items) - 1
                this = compare(st, op if last else strict, x.items[i], y.items[i])
                if last:
                    res = truth(st, this)
                else:
                    res = zor(truth(st, this), zand(eq(st, x.items[i], y.items[i]), res))
            return S("bool", res)
        return type_error(st, g, "'%s' not supported between %s and %s" % (op, kind(x), kind(y)))
    return f


def compare(st, op, a, b):
    if op == "==":
        return mk_bool(eq(st, a, b))
    if op == "!=":
        return mk_bool(znot(eq(st, a, b)))
    return lift2(st, _cmp(op), a, b)


def mk_bool(t):
    t = z3.simplify(t) if not (z3.is_true(t) or z3.is_false(t)) else t
    if z3.is_true(t):
        return TRUE
    if z3.is_false(t):
        return FALSE
    return S("bool", t)


def neg(st, a):
    def f(st, x, g):
        if is_num(x):
            if isinstance(x, C):
                return C(-x.v)
            if is_int_like(x):
                return S("int", -int_of(x))
            return S("real", -real_of(x))
        return type_error(st, g, "bad operand type for unary -")
    return lift1(st, f, a)


def minmax(st, which, vals):
    acc = vals[0]
    for v in vals[1:]:
        c = compare(st, "<" if which == "min" else ">", v, acc)
        acc = ite(truth(st, c), v, acc)
    return acc


# ---------------------------------------------------------------------------------------------
# strings
# ---------------------------------------------------------------------------------------------

def _one_char(v):
    return isinstance(v, C) and isinstance(v.v, str) and len(v.v) == 1


def s_len(st, a):
    def f(st, x, g):
        if isinstance(x, C) and isinstance(x.v, (str, bytes)):
            return C(len(x.v))
        if is_str(x):
            return S("int", z3.Length(x.t))
        if isinstance(x, T):
            return C(len(x.items))
        if isinstance(x, R):
            return st.obj_len(x, g)
        return type_error(st, g, "object of type %s has no len()" % kind(x))
    return lift1(st, f, a)


def _flatten_concat(t):
    if z3.is_app_of(t, z3.Z3_OP_SEQ_CONCAT):
        out = []
        for ch in t.children():
            out.extend(_flatten_concat(ch))
        return out
    return [t]


SEPS = ("/", "\\")
_uf_cache = {}


def _uf(name, *sorts):
    if name not in _uf_cache:
        _uf_cache[name] = z3.Function(name, *sorts)
    return _uf_cache[name]


def _rstrip_term(st, t, c):
    """r = rstrip_c(t): deterministic function with its exact specification as axioms."""
    if z3.is_string_value(t):
        return z3.StringVal(t.as_string().rstrip(c))
    f = _uf("rstrip_%d" % ord(c), StrS, StrS)
    ft = _uf("rstrip_tail_%d" % ord(c), StrS, StrS)
    r, tl = f(t), ft(t)
    cs = z3.StringVal(c)
    st.axiom(t == z3.Concat(r, tl))
    st.axiom(z3.InRe(tl, z3.Star(z3.Re(cs))))
    st.axiom(z3.Not(z3.SuffixOf(cs, r)))
    st.axiom(f(r) == r)
    st.axiom(z3.Implies(z3.Not(z3.SuffixOf(cs, t)), r == t))
    _strip_char_facts(st, t, r, c)
    for d in INTERESTING_CHARS:
        st.axiom(z3.Implies(z3.Length(r) > 0, z3.PrefixOf(z3.StringVal(d), r) == z3.PrefixOf(z3.StringVal(d), t)))
    parts = _flatten_concat(t)
    if len(parts) > 1:
        last = parts[-1]
        if z3.is_string_value(last) and last.as_string() and set(last.as_string()) == {c}:
            rest = parts[:-1]
            inner = rest[0] if len(rest) == 1 else z3.Concat(*rest)
            st.axiom(r == _rstrip_term(st, inner, c))
    return r


INTERESTING_CHARS = ("/", "\\", ":", ".")


def _strip_char_facts(st, t, r, c):
    """sound consequences of r being t with some leading/trailing c's removed (helps the solvers)"""
    for d in INTERESTING_CHARS:
        ds = z3.StringVal(d)
        if d != c:
            st.axiom(z3.Contains(r, ds) == z3.Contains(t, ds))
        else:
            st.axiom(z3.Implies(z3.Contains(r, ds), z3.Contains(t, ds)))
    st.axiom(z3.Length(r) <= z3.Length(t))


def _lstrip_term(st, t, c):
    if z3.is_string_value(t):
        return z3.StringVal(t.as_string().lstrip(c))
    f = _uf("lstrip_%d" % ord(c), StrS, StrS)
    fh = _uf("lstrip_head_%d" % ord(c), StrS, StrS)
    r, hd = f(t), fh(t)
    cs = z3.StringVal(c)
    st.axiom(t == z3.Concat(hd, r))
    st.axiom(z3.InRe(hd, z3.Star(z3.Re(cs))))
    st.axiom(z3.Not(z3.PrefixOf(cs, r)))
    st.axiom(f(r) == r)
    st.axiom(z3.Implies(z3.Not(z3.PrefixOf(cs, t)), r == t))
    _strip_char_facts(st, t, r, c)
    for d in INTERESTING_CHARS:
        st.axiom(z3.Implies(z3.Length(r) > 0, z3.SuffixOf(z3.StringVal(d), r) == z3.SuffixOf(z3.StringVal(d), t)))
    parts = _flatten_concat(t)
    if len(parts) > 1:
        first = parts[0]
        if z3.is_string_value(first) and first.as_string() and set(first.as_string()) == {c}:
            rest = parts[1:]
            inner = rest[0] if len(rest) == 1 else z3.Concat(*rest)
            st.axiom(r == _lstrip_term(st, inner, c))
    return r


def s_strip(st, s, chars, mode):
    """str.rstrip / lstrip / strip with a one-character argument (exact specification)."""
    if not _one_char(chars):
        raise OutOfSubset("strip with non single-character argument")
    c = chars.v
    if isinstance(s, C):
        return C({"r": s.v.rstrip, "l": s.v.lstrip, "b": s.v.strip}[mode](c))
    t = s.t
    if mode in ("r", "b"):
        t = _rstrip_term(st, t, c)
    if mode in ("l", "b"):
        t = _lstrip_term(st, t, c)
    return S("str", t)


_repl_funcs = {}


def s_replace(st, s, a, b):
    """str.replace(a, b) for single characters: uninterpreted function + axioms (over-approximation)."""
    if isinstance(s, C) and isinstance(a, C) and isinstance(b, C):
        return C(s.v.replace(a.v, b.v))
    if not (_one_char(a) and _one_char(b)):
        raise OutOfSubset("replace with non single-character arguments")
    ca, cb = a.v, b.v
    if ca == cb:
        return s
    st.note("str.replace(%r,%r) as uninterpreted function with axioms (length, no-alt, identity when no alt, "
            "idempotent, single character, first/last character, distributes over concatenation)" % (ca, cb))
    return S("str", _repl_term(st, str_of(s), ca, cb))


def _repl_term(st, t, ca, cb, seen=None):
    key = (ca, cb)
    if key not in _repl_funcs:
        _repl_funcs[key] = z3.Function("repl_%d_%d" % (ord(ca), ord(cb)), StrS, StrS)
    f = _repl_funcs[key]
    if z3.is_string_value(t):
        return z3.StringVal(t.as_string().replace(ca, cb))
    o = f(t)
    A, B = z3.StringVal(ca), z3.StringVal(cb)
    n = z3.Length(t)
    st.axiom(z3.Length(o) == n)
    st.axiom(z3.Not(z3.Contains(o, A)))
    st.axiom(z3.Implies(z3.Not(z3.Contains(t, A)), o == t))
    st.axiom(f(o) == o)
    st.axiom(z3.Contains(o, B) == z3.Or(z3.Contains(t, B), z3.Contains(t, A)))
    st.axiom(z3.Implies(n == 1, o == z3.If(t == A, B, t)))
    for d in INTERESTING_CHARS:
        if d not in (ca, cb):
            st.axiom(z3.Contains(o, z3.StringVal(d)) == z3.Contains(t, z3.StringVal(d)))
    st.axiom(z3.Implies(n > 0, z3.SubString(o, 0, 1) == z3.If(z3.SubString(t, 0, 1) == A, B, z3.SubString(t, 0, 1))))
    st.axiom(z3.Implies(n > 0, z3.SubString(o, n - 1, 1) ==
                        z3.If(z3.SubString(t, n - 1, 1) == A, B, z3.SubString(t, n - 1, 1))))
    parts = _flatten_concat(t)
    if len(parts) > 1:
        st.axiom(o == z3.Concat(*[_repl_term(st, ch, ca, cb) for ch in parts]))
    return o


_lower_f = [None]


def lower_fn():
    if _lower_f[0] is None:
        _lower_f[0] = z3.Function("py_lower", StrS, StrS)
    return _lower_f[0]


def _lower_term(st, t):
    """L(t) with the axioms of the `lower` specification instantiated on t (recursively on the parts of a
    concatenation that is split at constant separators)"""
    L = lower_fn()
    if z3.is_string_value(t):
        return z3.StringVal(t.as_string().lower())
    o = L(t)
    st.axiom(L(o) == o)
    for c in SEPS:
        cs = z3.StringVal(c)
        st.axiom(z3.Contains(o, cs) == z3.Contains(t, cs))
        st.axiom(z3.PrefixOf(cs, o) == z3.PrefixOf(cs, t))
        st.axiom(z3.SuffixOf(cs, o) == z3.SuffixOf(cs, t))
        st.axiom((t == cs) == (o == cs))
    st.axiom((z3.Length(o) == 0) == (z3.Length(t) == 0))
    st.axiom(z3.Length(o) >= z3.Length(t))
    parts = _flatten_concat(t)
    if len(parts) > 1:
        # length of lower is additive over concatenation (only Final_Sigma is context dependent, 1 char either way)
        st.axiom(z3.Length(o) == z3.Sum([z3.Length(_lower_term(st, pk)) for pk in parts]))
        # separator homomorphism: split at the first constant part that is a single separator
        for k, pk in enumerate(parts):
            if z3.is_string_value(pk) and pk.as_string() in SEPS and 0 < k < len(parts) - 1:
                left = parts[:k]
                right = parts[k + 1:]
                lt = left[0] if len(left) == 1 else z3.Concat(*left)
                rt = right[0] if len(right) == 1 else z3.Concat(*right)
                st.axiom(o == z3.Concat(_lower_term(st, lt), pk, _lower_term(st, rt)))
                break
            if z3.is_string_value(pk) and pk.as_string() in SEPS and k == 0:
                right = parts[1:]
                rt = right[0] if len(right) == 1 else z3.Concat(*right)
                st.axiom(o == z3.Concat(pk, _lower_term(st, rt)))
                break
    return o


def s_lower(st, s):
    if isinstance(s, C):
        return C(s.v.lower())
    st.note("str.lower as uninterpreted function with axioms (idempotent; separators fixed, neither created nor removed; "
            "emptiness preserved; never shorter; length additive over concatenation; distributes over concatenation at a separator)")
    return S("str", _lower_term(st, s.t))


def lower_concat_axiom(st, x, c, y):
    """L(x ++ c ++ y) == L(x) ++ c ++ L(y) for a separator c (instantiated explicitly by lemmas)."""
    L = lower_fn()
    cs = z3.StringVal(c)
    st.axiom(L(z3.Concat(x, cs, y)) == z3.Concat(L(x), cs, L(y)))


def s_find(st, s, c, rev):
    if isinstance(s, C) and isinstance(c, C):
        return C(s.v.rfind(c.v) if rev else s.v.find(c.v))
    if not _one_char(c):
        raise OutOfSubset("find with non single-character argument")
    t = str_of(s)
    cs = z3.StringVal(c.v)
    f = _uf(("rfind_%d" if rev else "find_%d") % ord(c.v), StrS, IntS)
    i = f(t)
    n = z3.Length(t)
    if rev:
        rest = z3.SubString(t, i + 1, n - i - 1)
    else:
        rest = z3.SubString(t, 0, i)
    st.axiom(z3.Or(z3.And(i == -1, z3.Not(z3.Contains(t, cs))),
                   z3.And(i >= 0, i < n, z3.SubString(t, i, 1) == cs, z3.Not(z3.Contains(rest, cs)))))
    st.axiom((i == -1) == z3.Not(z3.Contains(t, cs)))
    return S("int", i)


def s_index(st, s, i, g):
    """s[i] for str / tuple with Python's negative indexing and IndexError."""
    if isinstance(s, T):
        if isinstance(i, C) and isinstance(i.v, int):
            n = len(s.items)
            if -n <= i.v < n:
                return s.items[i.v]
            st.pend(g, "IndexError", "tuple index out of range")
            return NONE
        it = int_of(i)
        if it is None:
            return type_error(st, g, "tuple indices must be integers")
        n = len(s.items)
        st.pend(zand(g, z3.Or(it < -n, it >= n)), "IndexError", "tuple index out of range")
        out = []
        for k in range(n):
            out.append((z3.Or(it == k, it == k - n), s.items[k]))
        return mk_union(out) if out else NONE
    if is_str(s):
        it = int_of(i)
        if it is None:
            return type_error(st, g, "string indices must be integers")
        if isinstance(s, C) and isinstance(i, C):
            try:
                return C(s.v[i.v])
            except IndexError:
                st.pend(g, "IndexError", "string index out of range")
                return NONE
        t = str_of(s)
        n = z3.Length(t)
        st.pend(zand(g, z3.Or(it < -n, it >= n)), "IndexError", "string index out of range")
        if z3.is_app_of(it, z3.Z3_OP_SEQ_LENGTH) or (z3.is_int_value(it) and it.as_long() >= 0):
            idx = it
        else:
            idx = z3.If(it < 0, it + n, it)
        res = z3.SubString(t, idx, 1)
        if isinstance(i, C) and i.v == 0:
            for c in SEPS:
                concat_edge_facts(st, t, c)
                st.axiom((res == z3.StringVal(c)) == z3.PrefixOf(z3.StringVal(c), t))
        return S("str", res)
    if isinstance(s, O):
        return fresh(s.sort, "item")
    return type_error(st, g, "%s is not subscriptable" % kind(s))


def s_slice(st, s, lo, hi, g):
    if isinstance(s, T):
        if (lo is None or is_concrete(lo)) and (hi is None or is_concrete(hi)):
            return T(s.items[slice(None if lo is None else py_of(lo), None if hi is None else py_of(hi))])
        raise OutOfSubset("symbolic tuple slice")
    if isinstance(s, C) and isinstance(s.v, (str, bytes)) and (lo is None or is_concrete(lo)) and (hi is None or is_concrete(hi)):
        return C(s.v[slice(None if lo is None else py_of(lo), None if hi is None else py_of(hi))])
    if isinstance(s, O):
        return fresh(s.sort, "slice")
    if not is_str(s):
        return type_error(st, g, "%s is not sliceable" % kind(s))
    t = str_of(s)
    n = z3.Length(t)

    def clamp(v, default):
        if v is None or (isinstance(v, C) and v.v is None):
            return default
        if isinstance(v, U):
            # a bound that is an int on some alternatives and None on others (None = the default bound, as in Python)
            alts_ = list(v.alts)
            out = clamp(alts_[-1][1], default)
            for g_, b_ in reversed(alts_[:-1]):
                out = z3.If(g_, clamp(b_, default), out)
            return out
        it = int_of(v)
        if it is None:
            raise OutOfSubset("slice bound of kind %s" % kind(v))
        if z3.is_app_of(it, z3.Z3_OP_SEQ_LENGTH) or (z3.is_int_value(it) and it.as_long() >= 0):
            return z3.If(it > n, n, it)          # syntactically non-negative bound: no wrap-around case
        adj = z3.If(it < 0, it + n, it)
        return z3.If(adj < 0, z3.IntVal(0), z3.If(adj > n, n, adj))
    a = clamp(lo, z3.IntVal(0))
    b = clamp(hi, n)
    ln = z3.If(b > a, b - a, z3.IntVal(0))
    return S("str", z3.SubString(t, a, ln))


def s_contains(st, hay, needle):
    """`needle in hay` for strings."""
    if isinstance(hay, C) and isinstance(needle, C):
        return C(needle.v in hay.v)
    return mk_bool(z3.Contains(str_of(hay), str_of(needle)))


def concat_edge_facts(st, t, c):
    """for a concatenation t = p1 ++ ... ++ pn and a single character c: the first (last) character of t is
    that of its first (last) non-empty part -- valid facts that spare the solver a word-equation search"""
    parts = _flatten_concat(t)
    if len(parts) < 2:
        return
    cs = z3.StringVal(c)
    # suffix: walk from the right
    cond = BT
    for k in range(len(parts) - 1, -1, -1):
        pk = parts[k]
        st.axiom(z3.Implies(z3.And(cond, z3.Length(pk) > 0), z3.SuffixOf(cs, t) == z3.SuffixOf(cs, pk)))
        cond = z3.And(cond, z3.Length(pk) == 0)
        if k < len(parts) - 3:
            break
    cond = BT
    for k in range(len(parts)):
        pk = parts[k]
        st.axiom(z3.Implies(z3.And(cond, z3.Length(pk) > 0), z3.PrefixOf(cs, t) == z3.PrefixOf(cs, pk)))
        cond = z3.And(cond, z3.Length(pk) == 0)
        if k >= 2:
            break


def s_startswith(st, s, p, ends=False):
    if isinstance(s, C) and isinstance(p, C):
        return C(s.v.endswith(p.v) if ends else s.v.startswith(p.v))
    if _one_char(p):
        concat_edge_facts(st, str_of(s), p.v)
    if ends:
        return mk_bool(z3.SuffixOf(str_of(p), str_of(s)))
    return mk_bool(z3.PrefixOf(str_of(p), str_of(s)))


def to_str(st, v):
    def f(st, x, g):
        if is_str(x):
            return x
        if isinstance(x, C):
            if isinstance(x.v, (int, bool, type(None))):
                return C(str(x.v))
            if isinstance(x.v, EnumMember):
                return C("%s.%s" % (x.v.cls.name, x.v.name))
        if isinstance(x, S) and x.sort == "int":
            return S("str", z3.If(x.t >= 0, z3.IntToStr(x.t), z3.Concat(z3.StringVal("-"), z3.IntToStr(-x.t))))
        return fresh("str", "str")
    return lift1(st, f, v)
