"""Concrete (CPython) side of the lemma DSL: the same contract text that pyvc interprets
symbolically is executed natively in replay and bounded mode with these definitions."""


class Skip(Exception):
    """an assume() did not hold for these inputs: the case is outside the lemma's precondition"""


class CheckFailed(Exception):
    def __init__(self, name, detail=""):
        super().__init__(name)
        self.name = name
        self.detail = detail


PASSED = []


def lemma(**opts):
    def deco(fn):
        fn.lemma_opts = opts
        return fn
    return deco


def assume(c):
    if not c:
        raise Skip()


def check(c, name="check"):
    if not c:
        raise CheckFailed(name)
    PASSED.append(name)


def implies(a, b):
    return (not a) or bool(b)


def iff(a, b):
    return bool(a) == bool(b)


def truthy(x):
    return bool(x)


def lower_sep_axiom(x, c, y):
    return None


def note(*a):
    return None


cover = note

# annotation names used by lemma signatures
Prov = "Prov"
opt_str = "opt_str"
opt_float = "opt_float"


def cs_side(cs):
    return cs._verif_side


CS = "CS"
World = "World"


def db_row(storage, rid):
    """the (tag, blob) row stored under id in the real table, or None"""
    rows = storage.db.execute("SELECT tag, serialization FROM cloud WHERE id = ?", [rid]).fetchall()
    return (rows[0][0], rows[0][1]) if rows else None


def some_bytes(name="b"):
    return b"\x00new-bytes\xfe:" + name.encode()


Sqlite = "Sqlite"


Cache = "Cache"


def cache_node(c, name="n"):
    raise NotImplementedError("symbolic-only fixture")


def id_map(c, k):
    return c._oid_to_node.get(k)
