"""Replay of solver counter-models on the real code, and the bounded search used for undecided
obligations.  Everything runs in a subprocess of the same interpreter with /repo first on the path."""
import json
import os
import subprocess
import sys

HERE = os.path.dirname(os.path.dirname(os.path.abspath(__file__)))


def _run(args, timeout=600):
    env = dict(os.environ)
    env["PYTHONPATH"] = os.environ.get("VERIF_REPO", "/repo") + os.pathsep + HERE
    env.setdefault("PYTHONWARNINGS", "ignore")
    p = subprocess.run([sys.executable, "-W", "ignore", "-m", "pyvc.concrete"] + args, cwd=HERE, env=env,
                       stdout=subprocess.PIPE, stderr=subprocess.PIPE, timeout=timeout, text=True)
    out = p.stdout.strip().splitlines()
    if not out:
        return {"outcome": "error", "stderr": p.stderr[-1500:]}
    try:
        return json.loads(out[-1])
    except Exception:
        return {"outcome": "error", "stdout": p.stdout[-1500:], "stderr": p.stderr[-1500:]}


_CONCRETE_FIXTURES = ("Prov", "CS", "Sqlite")
_lemma_anns = {}


def can_replay(d):
    """replay needs a concrete counterpart for every fixture the lemma uses"""
    import ast
    key = (d["file"], d["lemma"])
    if key not in _lemma_anns:
        anns = []
        try:
            with open(os.path.join(HERE, d["file"])) as f:
                tree = ast.parse(f.read())
            for n in tree.body:
                if isinstance(n, ast.FunctionDef) and n.name == d["lemma"]:
                    anns = [ast.unparse(a.annotation) if a.annotation is not None else "str" for a in n.args.args]
        except Exception:
            anns = ["?"]
        _lemma_anns[key] = anns
    for a in _lemma_anns[key]:
        if a in ("str", "int", "float", "bool", "opt_str", "opt_float"):
            continue
        if a not in _CONCRETE_FIXTURES:
            return False
    return True


def inputs_from_model(d, model):
    from fractions import Fraction
    inputs = {}
    for pname, ann in d["inputs"].items():
        if ann.startswith("provider:"):
            continue
        if ann in ("opt_str", "opt_float"):
            isn = model.get(pname + "?none")
            if isn is not None and isn[1] is True:
                inputs[pname] = None
                continue
        v = model.get(pname)
        base = ann.replace("opt_", "")
        if v is None:
            inputs[pname] = {"str": "", "int": 0, "float": 0.0, "bool": False}.get(base)
        elif v[0] == "real":
            try:
                inputs[pname] = float(Fraction(v[1]))
            except Exception:
                inputs[pname] = 0.0
        else:
            inputs[pname] = v[1]
    # fixture-specific inputs (named <param>.<field>) are passed through
    for k, v in model.items():
        if "." in k and k.split(".")[0] in d["inputs"]:
            inputs[k] = v[1]
    return inputs


def cfg_index(d):
    from pyvc import fixtures
    if d.get("config") is None:
        return 0
    for i, c in enumerate(fixtures.PROVIDER_CONFIGS):
        if c["name"] == d["config"]:
            return i
    for cs in getattr(fixtures, "CONFIG_SETS", {}).values():
        for i, c in enumerate(cs):
            if c["name"] == d["config"]:
                return i
    return 0


def replay_model(d, model):
    inputs = inputs_from_model(d, model)
    ci = cfg_index(d)
    r = _run([json.dumps({"file": d["file"], "lemma": d["lemma"], "config": ci, "inputs": inputs})])
    want = d["name"].split("::", 1)[1]
    reproduced = False
    if r.get("outcome") == "check-failed" and r.get("check") == want:
        reproduced = True
    if r.get("outcome") == "exception" and want.startswith("no-exception:") and want[len("no-exception:"):].split("(")[0] == r.get("exc"):
        reproduced = True
    return {"reproduced": reproduced, "inputs": inputs, "config": d.get("config"), "config_index": ci,
            "file": d["file"], "lemma": d["lemma"], "observed": r, "expected_check": want}


def bounded_lemma_search(path, lemma, ci, tier, seed, want_check=None):
    budget = 3000 if tier == "quick" else 30000
    r = _run(["--search", json.dumps({"file": path, "lemma": lemma, "config": ci, "budget": budget, "seed": seed,
                                      "want": want_check})])
    if r.get("found"):
        return {"inputs": r["inputs"], "check": r["check"], "observed": r["result"], "file": path, "lemma": lemma,
                "config_index": ci, "reproduced": True, "evaluated": r["evaluated"]}
    return None


def replay_file(path):
    full = path if os.path.isabs(path) else os.path.join(HERE, path)
    with open(full) as f:
        data = json.load(f)
    rp = data.get("replay") or {}
    if data.get("kind") in ("bounded", "static") or "lemma" not in rp:
        mod = rp.get("replay_module") if isinstance(rp, dict) else None
        if mod:
            import importlib
            m, fn = mod.rsplit(".", 1)
            ok = getattr(importlib.import_module(m), fn)(rp)
            print("replay:", "REPRODUCED" if not ok else "not reproduced")
            return 1 if not ok else 0
        print("replay file names obligation %s; no concrete input was found (%s)" % (data["obligation"], data.get("solver_output")))
        return 1 if data.get("no_failing_input_found") else 0
    r = _run([json.dumps({"file": rp["file"], "lemma": rp["lemma"], "config": rp.get("config_index", 0), "inputs": rp["inputs"]})])
    print(json.dumps(r, indent=1))
    if r.get("outcome") in ("check-failed", "exception"):
        print("VIOLATION property=%s replay=%s" % (data["property"], path))
        return 1
    return 0
