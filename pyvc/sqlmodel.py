"""A relational semantics for the six SQL statements of cloudsync/sync/sqlite_storage.py.

The statement texts are taken from the real source at verification time (they are the constant
first argument of db.execute) and parsed here; a changed statement (a dropped `AND tag = ?`, a
different column) changes the interpretation and so the obligations.  The table `cloud` is an
*open* map id -> (tag, serialization): rows touched by the code under verification are tracked,
every other row is arbitrary.  This model is the assumed contract of the sqlite3 dependency and is
conformance-tested against the real sqlite3 module (pyvc.conformance.sqlite).
"""
import re
import z3
from .values import (C, S, E, O, R, T, U, NONE, TRUE, FALSE, BT, BF, zand, zor, znot, alts, mk_union, ite, py_of)
from . import prims as P
from .prims import OutOfSubset
from .engine import HObj, Effect, VAL, RAISE
from . import builtins as B


def parse_sql(sql):
    s = " ".join(sql.strip().rstrip(";").split())
    low = s.lower()
    if low.startswith("pragma") or low.startswith("create "):
        return {"kind": "noop"}
    m = re.match(r"insert into (\w+) \(([^)]*)\) values \(([^)]*)\)$", s, re.I)
    if m:
        cols = [c.strip() for c in m.group(2).split(",")]
        vals = [v.strip() for v in m.group(3).split(",")]
        if any(v != "?" for v in vals) or len(cols) != len(vals):
            raise OutOfSubset("INSERT with non-parameter values: %s" % sql)
        return {"kind": "insert", "table": m.group(1), "cols": cols}
    m = re.match(r"update (\w+) set (\w+) = \? where (.*)$", s, re.I)
    if m:
        return {"kind": "update", "table": m.group(1), "set": m.group(2), "where": parse_where(m.group(3), sql)}
    m = re.match(r"delete from (\w+) where (.*)$", s, re.I)
    if m:
        return {"kind": "delete", "table": m.group(1), "where": parse_where(m.group(2), sql)}
    m = re.match(r"select (.*?) from (\w+)(?: where (.*))?$", s, re.I)
    if m:
        cols = [c.strip() for c in m.group(1).split(",")]
        return {"kind": "select", "table": m.group(2), "cols": cols, "where": parse_where(m.group(3), sql) if m.group(3) else []}
    raise OutOfSubset("SQL statement outside the modelled subset: %s" % sql)


def parse_where(w, sql):
    conds = []
    for part in re.split(r"\s+and\s+", w, flags=re.I):
        m = re.match(r"(\w+)\s*=\s*\?$", part.strip())
        if not m:
            raise OutOfSubset("WHERE clause outside the modelled subset: %s" % sql)
        conds.append(m.group(1).lower())
    return conds


COLS = ("id", "tag", "serialization")


def make_db(eng, st):
    """the connection object: table as an open dict id -> T(tag, blob)"""
    def gen_row(eng_, s_, key):
        n = P.fresh_name("row")
        return T([S("str", z3.String(n + ".tag")), O("Bytes", z3.Const(n + ".blob", P.opaque_sort("Bytes")))])
    table = st.alloc(HObj("dict", "dict", meta={"open": True, "gen": gen_row, "tag": "sqltable", "no_none_keys": True}))
    db = st.alloc(HObj("opaque", None, fields={"table": table}, meta={"tag": "sqlite", "methods": {"execute": h_execute,
                                                                                                 "close": lambda e, s, r, a, k: e.ok(s, NONE)}}))
    return db


def _row_matches(st, rid, row, where, params):
    """z3 Bool: the row (id=rid, tag,row.items) satisfies the conjunctive WHERE with the given parameter values"""
    conds = []
    for col, pv in zip(where, params):
        if col == "id":
            conds.append(P.eq(st, rid, pv))
        elif col == "tag":
            conds.append(P.eq(st, row.items[0], pv))
        elif col == "serialization":
            conds.append(P.eq(st, row.items[1], pv))
        else:
            raise OutOfSubset("unknown column %s" % col)
    return zand(*conds)


def h_execute(eng, st, recv, args, kwargs):
    sql = args[0]
    if not isinstance(sql, C):
        raise OutOfSubset("non-constant SQL text")
    params = list(eng.iter_concrete(st, args[1])) if len(args) > 1 else []
    stmt = parse_sql(sql.v)
    st.note("sqlite3: statements interpreted by the relational model pyvc/sqlmodel.py (assumed contract of the dependency; never raises)")
    dbo = st.obj(recv)
    table = dbo.fields["table"]
    to = st.obj(table)
    cur_fields = {"lastrowid": NONE, "rowcount": C(-1)}
    rows_result = None
    st.effects.append(Effect("db", stmt["kind"], [sql] + params, {}, None))
    if stmt["kind"] == "noop":
        pass
    elif stmt["kind"] == "insert":
        vals = dict(zip([c.lower() for c in stmt["cols"]], params))
        if "id" in vals:
            raise OutOfSubset("INSERT with explicit id")
        nid = P.fresh("int", "rowid")
        st.axiom(nid.t > 0)
        # INTEGER PRIMARY KEY: the new id is not currently in the table (for any tag)
        present = B.dict_contains(eng, st, table, nid)
        st.assume(znot(present))
        B.dict_set(eng, st, table, nid, T([vals.get("tag", NONE), vals.get("serialization", NONE)]))
        cur_fields["lastrowid"] = nid
        cur_fields["rowcount"] = C(1)
    elif stmt["kind"] in ("update", "delete", "select"):
        where = stmt["where"]
        nset = 1 if stmt["kind"] == "update" else 0
        wparams = params[nset:]
        if "id" in where:
            rid = wparams[where.index("id")]
            present = B.dict_contains(eng, st, table, rid)
            found = []
            for key, val, pres in list(st.obj(table).items):
                g = zand(pres, P.eq(st, key, rid))
                if z3.is_false(g) or not isinstance(val, T):
                    continue
                found.append((zand(g, _row_matches(st, key, val, where, wparams)), key, val))
            hit = zor(*[g for g, _, _ in found])
            if stmt["kind"] == "update":
                col = stmt["set"].lower()
                idx = {"tag": 0, "serialization": 1}.get(col)
                if idx is None:
                    raise OutOfSubset("UPDATE of column %s" % col)
                for it in st.obj(table).items:
                    key, val, pres = it
                    if not isinstance(val, T):
                        continue
                    g = zand(pres, P.eq(st, key, rid), _row_matches(st, key, val, where, wparams))
                    if z3.is_false(g):
                        continue
                    newrow = list(val.items)
                    newrow[idx] = ite(g, params[0], val.items[idx])
                    it[1] = T(newrow)
                st.touch(st.obj(table))
                cur_fields["rowcount"] = S("int", z3.If(hit, 1, 0))
            elif stmt["kind"] == "delete":
                for it in st.obj(table).items:
                    key, val, pres = it
                    if not isinstance(val, T):
                        continue
                    g = zand(pres, P.eq(st, key, rid), _row_matches(st, key, val, where, wparams))
                    it[2] = zand(pres, znot(g))
                st.touch(st.obj(table))
                cur_fields["rowcount"] = S("int", z3.If(hit, 1, 0))
            else:
                outs = []
                for g, key, val in found:
                    outs.append((g, key, val))
                rows_result = ("byid", outs, stmt["cols"])
        else:
            if stmt["kind"] != "select":
                raise OutOfSubset("UPDATE/DELETE without id in WHERE")
            rows_result = ("scan", where, wparams, stmt["cols"])

    def fetchall(eng_, s_, r_, a_, k_):
        if rows_result is None:
            return eng_.ok(s_, s_.alloc(HObj("list", "list", items=[])))
        if rows_result[0] == "byid":
            _, outs, cols = rows_result
            # at most one row has a given id: fork on whether it matched
            res = []
            none_g = znot(zor(*[g for g, _, _ in outs]))
            for s2, b in eng_.branch(s_, none_g):
                if b:
                    res.append((s2, (VAL, s2.alloc(HObj("list", "list", items=[])))))
                else:
                    def proj(key, val):
                        vals = {"id": key, "tag": val.items[0], "serialization": val.items[1]}
                        return T([vals[c.lower()] for c in cols])
                    row = mk_union([(g, proj(key, val)) for g, key, val in outs])
                    res.append((s2, (VAL, s2.alloc(HObj("list", "list", items=[row])))))
            return res
        _, where, wparams, cols = rows_result

        def gen(e2, s2):
            n = P.fresh_name("scanrow")
            rid = S("int", z3.Int(n + ".id"))
            vals = {"id": rid, "tag": S("str", z3.String(n + ".tag")), "serialization": O("Bytes", z3.Const(n + ".blob", P.opaque_sort("Bytes")))}
            for col, pv in zip(where, wparams):
                vals[col] = pv
            return [(s2, T([vals[c.lower()] for c in cols]))]
        return eng_.ok(s_, B.new_abslist(eng_, s_, gen, name="rows"))
    cur = st.alloc(HObj("opaque", None, fields=cur_fields, meta={"tag": "cursor", "methods": {"fetchall": fetchall}}))
    return eng.ok(st, cur)


def fx_sqlite_storage(eng, st, pname):
    from . import world
    scls = world.cls(eng, "cloudsync.sync.sqlite_storage:SqliteStorage")
    db = make_db(eng, st)
    mutex = st.alloc(HObj("opaque", None, meta={"tag": "lock"}))
    r = st.alloc(HObj("obj", scls, fields={"db": db, "_mutex": mutex, "_filename": C(":memory:")}, meta={"tag": "storage"}))
    eng.inputs[pname] = "storage"
    return r


def _b_db_row(eng, st, recv, args, kwargs):
    """db_row(storage, id): the (tag, blob) row currently stored under id, or None"""
    storage, rid = args
    table = st.obj(st.obj(storage).fields["db"]).fields["table"]
    return B.dict_get(eng, st, table, rid, NONE)


def _b_fresh_bytes(eng, st, recv, args, kwargs):
    nm = py_of(args[0]) if args else "bytes"
    return eng.ok(st, O("Bytes", z3.Const(nm, P.opaque_sort("Bytes"))))


B.BUILTIN_FUNCS["db_row"] = _b_db_row
B.BUILTIN_FUNCS["some_bytes"] = _b_fresh_bytes
