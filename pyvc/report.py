"""Verdict policy, evidence JSON, VIOLATION / KNOWN-FINDING lines, exit codes."""
import json
import os
import time

HERE = os.path.dirname(os.path.dirname(os.path.abspath(__file__)))
BASELINE = os.path.join(HERE, "baseline", "obligations.json")


def load_baseline():
    if os.path.exists(BASELINE):
        with open(BASELINE) as f:
            return json.load(f)
    return {}


class Report:
    def __init__(self, prop, tier, seed, entry):
        self.prop = prop
        self.tier = tier
        self.seed = seed
        self.entry = entry
        self.faults = []
        self.violations = []      # dicts: obligation, replay, no_input
        self.known_reported = []
        self.static = []
        self.gens = []
        self.gen_errors = []
        self.obs = []
        self.results = []
        self.covers = {}
        self.bounded = []
        self.functions = {}
        self.notes = set()
        self.conformance = {}
        self.wall = 0.0
        self.undecided = []
        self.lines = []

    # ------------------------------------------------------------------ collection
    def fault(self, msg):
        self.faults.append(msg)

    def add_static(self, res):
        """res: dict(name, ok, detail, witness, kind='static')"""
        self.static.append(res)

    def add_gen(self, g):
        self.gens.append({k: g[k] for k in ("task", "paths", "gen_s", "feas_checks")})
        if not hasattr(self, "lemma_functions"):
            self.lemma_functions = {}
        self.lemma_functions.setdefault(g["task"][1], set()).update(f["qualname"] for f in g["functions"])
        for f in g["functions"]:
            self.functions[f["qualname"]] = f
        self.notes.update(g["notes"])

    def gen_error(self, g):
        self.gen_errors.append(g)
        for f in g.get("functions", []):
            self.functions.setdefault(f["qualname"], f)

    def set_obligations(self, obs, results, covers):
        self.obs = obs
        self.results = results
        self.covers = covers

    def add_bounded(self, res, known, match_known):
        """res: dict(name, evaluations, distinct_nontrivial, exhaustive, bound, failures:[{what, witness, replay}], samples)"""
        self.bounded.append(res)
        for f in res.get("failures", []):
            self._failure(res["name"] + "::" + f["what"], f.get("witness"), f.get("replay_data"), known, match_known,
                          kind="bounded")

    # ------------------------------------------------------------------ failures
    def _replay_path(self, obname):
        d = os.path.join(HERE, "replays", self.prop)
        os.makedirs(d, exist_ok=True)
        safe = "".join(c if c.isalnum() or c in "-_." else "_" for c in obname)[:120]
        return os.path.join(d, safe + ".json")

    def _failure(self, obname, witness, replay_data, known, match_known, kind="proof", no_input=False, solver_out=None):
        for k in known:
            if match_known(k, self.prop, obname, witness):
                line = "KNOWN-FINDING: property=%s %s" % (self.prop, k.get("what", obname))
                if line not in self.lines:
                    self.lines.append(line)
                if not any(x["obligation"] == obname for x in self.known_reported):
                    self.known_reported.append({"id": k.get("id"), "obligation": obname, "witness": witness})
                return
        path = self._replay_path(obname)
        data = {"property": self.prop, "obligation": obname, "kind": kind, "witness": witness,
                "replay": replay_data, "solver_output": solver_out, "no_failing_input_found": no_input,
                "how_to_replay": "./check %s --replay %s" % (self.prop, os.path.relpath(path, HERE))}
        with open(path, "w") as f:
            json.dump(data, f, indent=1, default=str)
        line = "VIOLATION property=%s replay=%s" % (self.prop, os.path.relpath(path, HERE))
        if no_input:
            line += " obligation=%s no-failing-input-found" % obname.replace(" ", "_")
        self.lines.append(line)
        self.violations.append({"obligation": obname, "replay": os.path.relpath(path, HERE), "no_input": no_input,
                                "witness": witness})

    def resolve_failures(self, replay, known, match_known):
        base = load_baseline().get(self.prop, {})
        # static obligations
        for s in self.static:
            if not s["ok"]:
                self._failure("static::" + s["name"], s.get("witness"), s.get("detail"), known, match_known, kind="static",
                              no_input=s.get("witness") is None, solver_out=s.get("detail"))
        # generation errors: the function left the verified subset
        for g in self.gen_errors:
            path, lemma, ci = g["task"]
            key = "gen::%s[%s]" % (lemma, ci)
            changed = self._changed_functions(base, lemma)
            found = replay.bounded_lemma_search(path, lemma, ci, self.tier, self.seed) if replay.can_replay({"inputs": {}, "file": path, "lemma": lemma}) else None
            if found is not None:
                self._failure("%s::%s" % (lemma, found["check"]), found["inputs"], found, known, match_known)
            elif "contract out of date" in g["error"]:
                self.fault("cannot generate obligations for %s: %s" % (key, g["error"]))
            elif changed and any(k.startswith(lemma) for k in base.get("groups", {})):
                self._failure(key, None, None, known, match_known, no_input=True,
                              solver_out="verification-condition generation failed after a source change: %s; changed: %s"
                              % (g["error"], changed))
            else:
                self.fault("cannot generate obligations for %s: %s\n%s" % (key, g["error"], g.get("trace", "")))
        # proof obligations
        seen_groups = set()
        reproduced_groups = set()
        replay_tries = {}
        for d, r in zip(self.obs, self.results):
            if r.status == "unsat":
                continue
            name = d["name"]
            if name in reproduced_groups:
                continue
            solver_out = {"status": r.status, "log": r.log, "goal": d["goal"]}
            if isinstance(r.model, dict):
                # the solver's counter-model over the symbolic world (names of the symbolic inputs, provider answers and
                # havocked fields); for world lemmas there is no concrete harness, so this valuation is the counterexample
                solver_out["counter_model"] = {k: v for k, v in list(r.model.items())[:250] if "lambda" not in str(v)}
            if r.status == "sat" and r.model is not None and replay.can_replay(d) and replay_tries.get(name, 0) < 3:
                replay_tries[name] = replay_tries.get(name, 0) + 1
                rp = replay.replay_model(d, r.model)
                if rp.get("reproduced"):
                    reproduced_groups.add(name)
                    self._failure(name, rp.get("inputs"), rp, known, match_known, solver_out=solver_out)
                    continue
                solver_out["replay"] = rp
            # undecided: search concretely for a failing input of the same lemma
            if name in seen_groups:
                continue
            seen_groups.add(name)
            ci = self._cfg_index(d)
            found = None
            if replay.can_replay(d):
                found = replay.bounded_lemma_search(d["file"], d["lemma"], ci, self.tier, self.seed, want_check=name.split("::", 1)[1])
            if found is not None:
                self._failure(name, found["inputs"], found, known, match_known, solver_out=solver_out)
                continue
            # a failure already recorded as a known finding (identified by its obligation; these have no replay harness)
            kf = [k for k in known if not k.get("witness_pred") and match_known(k, self.prop, name, None)]
            if kf and r.status == "sat":
                self._failure(name, None, None, known, match_known, solver_out=solver_out)
                continue
            changed = self._changed_functions(base, d["lemma"])
            groups = base.get("groups", {})
            # an exception-freedom obligation exists only on paths that raise: after a source change it can be new; it
            # counts as "discharged on the reference tree" when the lemma itself was (no such path existed there)
            exc_ob = "::no-exception" in name or "::only-declared-exceptions" in name
            lemma_in_base = any(k.startswith(d["lemma"] + "::") or k.startswith(d["lemma"] + "[") for k in groups)
            # likewise a check that sits on a path which is infeasible on the reference tree (e.g. "if a stale slot
            # exists: it does not lead to the entry") has no obligation there: the lemma being baselined is what counts
            if (name in groups or lemma_in_base) and changed:
                solver_out["changed_functions"] = changed
                self._failure(name, None, None, known, match_known, no_input=True, solver_out=solver_out)
            else:
                self.undecided.append({"obligation": name, "status": r.status, "log": r.log})
                if os.environ.get("VERIF_DEBUG") and r.model is not None:
                    with open("/tmp/verif_model_%d.txt" % len(self.undecided), "w") as f:
                        f.write(name + "\n" + "\n".join(str(c) for c in d.get("trace", [])) + "\n\n")
                        f.write(json.dumps(r.model, indent=1, default=str) if isinstance(r.model, (dict, list)) else str(r.model))
        # vacuity
        for n, st in self.covers.items():
            if st == "unsat":
                self.fault("vacuous obligation (path condition unsatisfiable): %s" % n)
        if not self.obs and not self.static and not self.bounded and self.entry.get("lemma_files"):
            self.fault("zero obligations generated")

    def _cfg_index(self, d):
        from pyvc import fixtures
        if d["config"] is None:
            return 0
        for i, c in enumerate(fixtures.PROVIDER_CONFIGS):
            if c["name"] == d["config"]:
                return i
        for cs in getattr(fixtures, "CONFIG_SETS", {}).values():
            for i, c in enumerate(cs):
                if c["name"] == d["config"]:
                    return i
        return 0

    def _changed_functions(self, base, lemma):
        old = base.get("functions", {})
        changed = []
        for qn, f in self.functions.items():
            if qn in old and old[qn] != f["sha256"]:
                changed.append(qn)
        # functions that disappeared from the inlined set
        return changed

    # ------------------------------------------------------------------ output
    def finish(self, write=True, update_baseline=False):
        known_obs = set(k["obligation"] for k in self.known_reported)
        n_known = sum(1 for d, r in zip(self.obs, self.results) if r.status != "unsat" and d["name"] in known_obs) + \
            sum(1 for s in self.static if not s["ok"] and ("static::" + s["name"]) in known_obs)
        # obligations that fail only because of a recorded known finding are reported separately, not as proved
        n_ob = len(self.obs) + len(self.static) - n_known
        n_dis = sum(1 for r in self.results if r.status == "unsat") + sum(1 for s in self.static if s["ok"])
        if self.undecided and not self.violations:
            for u in self.undecided[:10]:
                self.fault("undecided obligation (no source change, solver could not decide): %s %s" % (u["obligation"], u["log"]))
        by_backend = {}
        solver_time = 0.0
        slow = []
        for d, r in zip(self.obs, self.results):
            if r.status == "unsat":
                by_backend[r.solver] = by_backend.get(r.solver, 0) + 1
            solver_time += sum(x[2] for x in r.log if isinstance(x[2], (int, float)))
            slow.append((round(r.time, 3), d["name"], str(r.solver)))
        by_backend["static-ast"] = sum(1 for s in self.static if s["ok"])
        slow.sort(reverse=True)
        samples = []
        for d, r in list(zip(self.obs, self.results))[:3]:
            samples.append({"obligation": d["name"], "goal": d["goal"], "path_constraints": d["nconstraints"],
                            "verdict": r.status, "backend": r.solver})
        for s in self.static[:3]:
            samples.append({"obligation": "static::" + s["name"], "verdict": "holds" if s["ok"] else "fails", "detail": str(s.get("detail"))[:300]})
        for b in self.bounded:
            for sm in b.get("samples", [])[:2]:
                samples.append({"bounded": b["name"], "case": sm})
        level = self.entry.get("level", "proof")
        coverage = {
            "obligations": n_ob,
            "discharged": n_dis,
            "checker_cmd": "./check %s --tier %s" % (self.prop, self.tier),
            "trusted_base": self.entry.get("trusted_base", []) + ["pyvc", "z3 5.1.0", "cvc5 1.4.0", "CPython 3.12 ast"],
            "samples": samples or [{"note": "no obligations"}],
            "by_backend": by_backend,
            "solver_time_s": round(solver_time, 2),
            "slowest": slow[:5],
            "functions_under_contract": sorted(self.functions.values(), key=lambda f: f["qualname"]),
            "functions_by_lemma": {k: sorted(v) for k, v in sorted(getattr(self, "lemma_functions", {}).items())},
            "lemmas": sorted(set(d["lemma"] for d in self.obs)),
            "configurations": sorted(set(d["config"] for d in self.obs if d["config"])),
            "generation": {"tasks": len(self.gens), "errors": len(self.gen_errors),
                           "max_paths": max([g["paths"] for g in self.gens] or [0]),
                           "gen_s": round(sum(g["gen_s"] for g in self.gens), 2)},
            "vacuity": {"cover_queries": len(self.covers), "covered": sum(1 for v in self.covers.values() if v == "sat"),
                        "undetermined": sum(1 for v in self.covers.values() if v not in ("sat", "unsat"))},
            "conformance": {k: v for k, v in self.conformance.items() if k != "failures"},
            "static_obligations": [{"name": s["name"], "ok": s["ok"]} for s in self.static],
            "bounded": [{k: b[k] for k in b if k not in ("failures",)} for b in self.bounded],
            "known_findings_reported": self.known_reported,
            "obligations_failing_as_known_findings": n_known,
            "undecided": self.undecided[:20],
            "abstractions": sorted(self.notes),
            "explanation": self.entry.get("explanation", ""),
        }
        # generic keys so that bounded-only runs still describe themselves
        ev_total = sum(b.get("evaluations", 0) for b in self.bounded)
        if ev_total:
            coverage["evaluations"] = ev_total
            coverage["distinct_nontrivial"] = sum(b.get("distinct_nontrivial", 0) for b in self.bounded)
            coverage["rule"] = "; ".join(b.get("rule", b["name"]) for b in self.bounded)
        evidence = {
            "property_id": self.prop, "tier": self.tier, "seed": self.seed, "level": level,
            "coverage": coverage,
            "assumptions": self.entry.get("assumptions", []) + _base_assumptions(),
            "wall_s": round(self.wall, 2),
            "violations": len(self.violations),
        }
        if write:
            os.makedirs(os.path.join(HERE, "evidence"), exist_ok=True)
            with open(os.path.join(HERE, "evidence", self.prop + ".json"), "w") as f:
                json.dump(evidence, f, indent=1, default=str)
        for line in self.lines:
            print(line)
        print("%s tier=%s obligations=%d discharged=%d bounded=%d violations=%d known=%d faults=%d wall=%.1fs" % (
            self.prop, self.tier, n_ob, n_dis, len(self.bounded), len(self.violations), len(self.known_reported),
            len(self.faults), self.wall))
        if update_baseline and not self.violations and not self.faults:
            allb = load_baseline()
            allb[self.prop] = {"groups": {d["name"]: 1 for d in self.obs},
                               "functions": {qn: f["sha256"] for qn, f in self.functions.items()}}
            os.makedirs(os.path.dirname(BASELINE), exist_ok=True)
            with open(BASELINE, "w") as f:
                json.dump(allb, f, indent=0, sort_keys=True)
        if self.faults:
            for m in self.faults[:20]:
                print("CHECKER-ERROR: %s" % m)
        if self.violations:
            return 1
        if self.faults:
            return 3
        return 0


def _base_assumptions():
    from pyvc.main import ASSUMPTIONS_BASE
    return list(ASSUMPTIONS_BASE)
