"""pyvc symbolic interpreter: executes real function bodies (ast) path by path.

Outcome conventions
  expression evaluation returns a list of (State, ("val", V)) | (State, ("raise", R-exception))
  statement execution returns a list of (State, (tag, payload)) with tag in
      next | return | raise | break | continue
"""
import ast
import time
import sys
import z3

sys.setrecursionlimit(60000)

from .values import (V, C, S, E, O, R, T, U, EnumMember, ClassRef, FuncRef, BoundMethod, ModuleRef,
                     Builtin, SuperRef, NONE, TRUE, FALSE, BT, BF, zand, zor, znot, alts, mk_union,
                     ite, is_concrete, py_of, EmptyUnion, _same)
from . import prims as P
from .prims import OutOfSubset
from .source import Repo, ClassInfo, ModuleInfo


class HObj:
    __slots__ = ("kind", "cls", "fields", "items", "meta", "addr")

    def __init__(self, kind, cls=None, fields=None, items=None, meta=None):
        self.addr = 0
        self.kind = kind
        self.cls = cls
        self.fields = fields if fields is not None else {}
        self.items = items if items is not None else []
        self.meta = meta if meta is not None else {}

    def copy(self):
        its = [list(x) if isinstance(x, list) else x for x in self.items]
        h = HObj(self.kind, self.cls, dict(self.fields), its, self.meta)
        h.addr = self.addr
        return h


class Frame:
    __slots__ = ("locals", "module", "cls", "func", "yields", "self_v", "closure", "local_names")

    def __init__(self, module, cls=None, func=None, closure=None):
        self.locals = {}
        self.local_names = frozenset()
        self.module = module
        self.cls = cls
        self.func = func
        self.yields = None
        self.self_v = None
        self.closure = closure

    def copy(self):
        f = Frame(self.module, self.cls, self.func, self.closure)
        f.locals = dict(self.locals)
        f.yields = list(self.yields) if self.yields is not None else None
        f.self_v = self.self_v
        f.local_names = self.local_names
        return f


class _NeedsAbstraction(Exception):
    pass


class Effect:
    __slots__ = ("recv", "method", "args", "kwargs", "result", "tag")

    def __init__(self, recv, method, args, kwargs=None, result=None, tag=None):
        self.recv = recv
        self.method = method
        self.args = args
        self.kwargs = kwargs or {}
        self.result = result
        self.tag = tag

    def __repr__(self):
        return "Effect(%s.%s%r -> %r)" % (self.recv, self.method, self.args, self.result)


_PINNED = []        # z3 recycles AST ids of freed terms: every term used as a cache key is kept alive here
_consts_cache = {}


def consts_of(t):
    """ids of the uninterpreted constants occurring in a z3 term (cached per term)"""
    k = t.get_id()
    r = _consts_cache.get(k)
    if r is not None:
        return r
    out = set()
    seen = set()
    stack = [t]
    while stack:
        e = stack.pop()
        i = e.get_id()
        if i in seen:
            continue
        seen.add(i)
        c = _consts_cache.get(i)
        if c is not None:
            out |= c
            continue
        if z3.is_const(e):
            if e.decl().kind() == z3.Z3_OP_UNINTERPRETED:
                out.add(e.decl().name())
        elif z3.is_app(e):
            if e.decl().kind() == z3.Z3_OP_UNINTERPRETED:
                out.add("fn:" + e.decl().name())
            stack.extend(e.children())
        elif z3.is_quantifier(e):
            stack.append(e.body())
    r = frozenset(out)
    _consts_cache[k] = r
    _PINNED.append(t)
    return r


_skel_cache = {}
_BOOL_OPS = None


def bool_skeleton(t):
    """propositional abstraction of a formula: theory atoms become Boolean constants (cached)"""
    global _BOOL_OPS
    if _BOOL_OPS is None:
        _BOOL_OPS = {z3.Z3_OP_AND, z3.Z3_OP_OR, z3.Z3_OP_NOT, z3.Z3_OP_IMPLIES, z3.Z3_OP_XOR, z3.Z3_OP_TRUE, z3.Z3_OP_FALSE}
    k = t.get_id()
    r = _skel_cache.get(k)
    if r is not None:
        return r
    if z3.is_app(t) and z3.is_bool(t):
        kind = t.decl().kind()
        ch = t.children()
        if kind in _BOOL_OPS:
            args = [bool_skeleton(c) for c in ch]
            if kind == z3.Z3_OP_AND:
                r = z3.And(*args) if args else z3.BoolVal(True)
            elif kind == z3.Z3_OP_OR:
                r = z3.Or(*args) if args else z3.BoolVal(False)
            elif kind == z3.Z3_OP_NOT:
                r = z3.Not(args[0])
            elif kind == z3.Z3_OP_IMPLIES:
                r = z3.Implies(args[0], args[1])
            elif kind == z3.Z3_OP_XOR:
                r = z3.Xor(args[0], args[1])
            else:
                r = t
        elif kind == z3.Z3_OP_ITE and z3.is_bool(ch[1]):
            r = z3.If(bool_skeleton(ch[0]), bool_skeleton(ch[1]), bool_skeleton(ch[2]))
        elif kind in (z3.Z3_OP_EQ, z3.Z3_OP_IFF) and len(ch) == 2 and z3.is_bool(ch[0]):
            r = bool_skeleton(ch[0]) == bool_skeleton(ch[1])
        elif z3.is_const(t) and kind == z3.Z3_OP_UNINTERPRETED:
            r = t
        else:
            r = z3.Bool("atom!%d" % k)
    else:
        r = z3.Bool("atom!%d" % k)
    _skel_cache[k] = r
    _PINNED.append(t)
    return r


_hasstr_cache = {}
_sabs_cache = {}


def has_string_terms(t):
    k = t.get_id()
    r = _hasstr_cache.get(k)
    if r is not None:
        return r
    r = False
    if z3.is_expr(t):
        sk = t.sort().kind()
        if sk in (z3.Z3_SEQ_SORT, z3.Z3_RE_SORT):
            r = True
        else:
            for c in t.children():
                if has_string_terms(c):
                    r = True
                    break
    _hasstr_cache[k] = r
    _PINNED.append(t)
    return r


def string_abstract(t):
    """like bool_skeleton, but only atoms that mention strings are replaced by Boolean constants:
    integer / real / enum / boolean reasoning stays exact"""
    global _BOOL_OPS
    if _BOOL_OPS is None:
        bool_skeleton(z3.BoolVal(True))
    k = t.get_id()
    r = _sabs_cache.get(k)
    if r is not None:
        return r
    if not has_string_terms(t):
        r = t
    elif z3.is_app(t) and z3.is_bool(t):
        kind = t.decl().kind()
        ch = t.children()
        if kind in _BOOL_OPS:
            args = [string_abstract(c) for c in ch]
            if kind == z3.Z3_OP_AND:
                r = z3.And(*args)
            elif kind == z3.Z3_OP_OR:
                r = z3.Or(*args)
            elif kind == z3.Z3_OP_NOT:
                r = z3.Not(args[0])
            elif kind == z3.Z3_OP_IMPLIES:
                r = z3.Implies(args[0], args[1])
            else:
                r = z3.Xor(args[0], args[1])
        elif kind == z3.Z3_OP_ITE and z3.is_bool(ch[1]):
            r = z3.If(string_abstract(ch[0]), string_abstract(ch[1]), string_abstract(ch[2]))
        elif kind in (z3.Z3_OP_EQ, z3.Z3_OP_IFF) and len(ch) == 2 and z3.is_bool(ch[0]):
            r = string_abstract(ch[0]) == string_abstract(ch[1])
        else:
            r = _abstract_atom(t, k)
    else:
        r = _abstract_atom(t, k)
    _sabs_cache[k] = r
    _PINNED.append(t)
    return r


_len_terms = {}
_stru_consts = {}
_stru_literals = {}
_StrU = None
_lenU = None


def _stru():
    global _StrU, _lenU
    if _StrU is None:
        _StrU = z3.DeclareSort("StrU")
        _lenU = z3.Function("lenU", _StrU, z3.IntSort())
    return _StrU, _lenU


_stru_by_name = {}


def abstraction_axioms(terms):
    """facts about the abstraction symbols occurring in `terms`: lengths are non-negative, distinct literals are
    distinct and have their real length"""
    out = []
    sort, lenU = _stru()
    names = set()
    for t in terms:
        names |= consts_of(t)
    lits = []
    for n in names:
        c = _stru_by_name.get(n)
        if c is None:
            continue
        out.append(lenU(c[0]) >= 0)
        if c[1] is not None:
            lits.append(c)
    if len(lits) > 1:
        out.append(z3.Distinct(*[c for c, _ in lits]))
    for c, text in lits:
        out.append(lenU(c) == len(text))
    return out


def _abstract_atom(t, k):
    """An atom that mentions strings.  Maximal string-sorted subterms become constants of an uninterpreted sort
    (equality and length stay meaningful: congruence, transitivity, distinct literals, length arithmetic); any other
    string predicate (prefix, contains, regex membership, order) becomes a Boolean constant."""
    sort, lenU = _stru()
    subs = []
    stack = [t]
    seen = set()
    while stack:
        e = stack.pop()
        i = e.get_id()
        if i in seen:
            continue
        seen.add(i)
        if z3.is_expr(e) and e.sort().kind() == z3.Z3_SEQ_SORT:
            if z3.is_string_value(e):
                text = e.as_string()
                c = _stru_literals.get(text)
                if c is None:
                    c = z3.Const("strlit!%d" % len(_stru_literals), sort)
                    _stru_literals[text] = c
                    _stru_consts["lit:" + text] = c
                    _stru_by_name["strlit!%d" % (len(_stru_literals) - 1)] = (c, text)
            else:
                c = _stru_consts.get(i)
                if c is None:
                    c = z3.Const("stru!%d" % i, sort)
                    _stru_consts[i] = c
                    _stru_by_name["stru!%d" % i] = (c, None)
                    _PINNED.append(e)
            subs.append((e, c))
            continue        # do not descend into a string term
        stack.extend(e.children())
    if not subs:
        return z3.Bool("atom!%d" % k)
    # only equalities between strings and length terms can be expressed over the uninterpreted sort
    kind = t.decl().kind() if z3.is_app(t) else None
    try:
        if kind == z3.Z3_OP_EQ and t.arg(0).sort().kind() == z3.Z3_SEQ_SORT:
            m = dict((a.get_id(), b) for a, b in subs)
            return m[t.arg(0).get_id()] == m[t.arg(1).get_id()]
        if kind == z3.Z3_OP_DISTINCT and t.arg(0).sort().kind() == z3.Z3_SEQ_SORT:
            m = dict((a.get_id(), b) for a, b in subs)
            return z3.Distinct(*[m[c.get_id()] for c in t.children()])
    except KeyError:
        return z3.Bool("atom!%d" % k)
    # arithmetic atom over lengths: replace Length(x) by lenU(stru(x))
    lsubs = []
    stack = [t]
    seen = set()
    ok = True
    while stack:
        e = stack.pop()
        i = e.get_id()
        if i in seen:
            continue
        seen.add(i)
        if z3.is_app_of(e, z3.Z3_OP_SEQ_LENGTH):
            arg = e.arg(0)
            m = dict((a.get_id(), b) for a, b in subs)
            c = m.get(arg.get_id())
            if c is None:
                ok = False
                break
            lsubs.append((e, lenU(c)))
            continue
        if z3.is_expr(e) and e.sort().kind() in (z3.Z3_SEQ_SORT, z3.Z3_RE_SORT):
            ok = False
            break
        stack.extend(e.children())
    if ok and lsubs:
        t2 = z3.substitute(t, *lsubs)
        if not has_string_terms(t2):
            return t2
    return z3.Bool("atom!%d" % k)


class State:
    def __init__(self, eng):
        self.eng = eng
        self.pc = []          # path constraints
        self.defs = []        # definitional axioms for fresh symbols (total, kept across merges)
        self.pcvars = set()   # names of the symbols constrained so far (for cheap independence tests)
        self.heap = {}
        self.frames = []
        self.effects = []
        self.ghost = {}
        self.pending = []
        self.wlog = []        # addresses of heap objects written (for merge decisions)
        self.wfields = {}     # addr -> set of field names written (None = unknown / whole object)
        self.naddr = [0]
        self.depth = 0

    def clone(self):
        s = State.__new__(State)
        s.eng = self.eng
        s.pc = list(self.pc)
        s.defs = list(self.defs)
        s.pcvars = set(self.pcvars)
        s.heap = {a: o.copy() for a, o in self.heap.items()}
        s.frames = [f.copy() for f in self.frames]
        s.effects = list(self.effects)
        s.ghost = dict(self.ghost)
        s.pending = []
        s.wlog = list(self.wlog)
        s.wfields = {a: set(f) for a, f in self.wfields.items()}
        s.naddr = self.naddr
        s.depth = self.depth
        return s

    # -- constraints
    def axiom(self, t):
        self.defs.append(t)
        self.pcvars |= consts_of(t)

    def assume(self, t):
        if not z3.is_true(t):
            self.pc.append(t)
            self.pcvars |= consts_of(t)

    def pend(self, g, exc, msg=""):
        if not z3.is_false(g):
            self.pending.append((g, exc, msg))

    def note(self, s):
        self.eng.notes.add(s)

    def all_constraints(self):
        return self.defs + self.pc

    # -- heap
    def alloc(self, obj):
        self.naddr[0] += 1
        a = self.naddr[0]
        self.heap[a] = obj
        obj.addr = a
        return R(a)

    def obj(self, r):
        return self.heap[r.addr]

    def touch(self, obj=None, field=None):
        self.wlog.append(obj.addr if obj is not None else 0)
        if obj is not None:
            self.wfields.setdefault(obj.addr, set()).add(field)

    def mark(self):
        return (len(self.wlog), self.naddr[0], len(self.effects), tuple(sorted((k, id(v) if not isinstance(v, (int, str)) else v) for k, v in self.ghost.items())))

    def clean_since(self, mark):
        """no write to an object that existed at `mark`, no effect, no ghost change"""
        n, water, neff, gh = mark
        if len(self.effects) != neff:
            return False
        if any(a <= water for a in self.wlog[n:]):
            return False
        return self.mark()[3] == gh

    def obj_truth(self, r):
        o = self.obj(r)
        if o.kind in ("list", "set", "iter"):
            return BT if o.items else BF
        if o.kind == "dict":
            known = zor(*[it[2] for it in o.items])
            if o.meta.get("open"):
                if "nonempty" not in o.meta:
                    o.meta = dict(o.meta)
                    o.meta["nonempty"] = z3.Bool(P.fresh_name("absdict.nonempty"))
                return zor(known, o.meta["nonempty"])
            return known
        if o.kind == "abslist":
            return o.meta["nonempty"]
        if "truth" in o.meta:
            return o.meta["truth"](self, r)
        return BT

    def obj_eq(self, a, b):
        if a.addr == b.addr:
            return BT
        oa, ob = self.obj(a), self.obj(b)
        if oa.kind == "list" and ob.kind == "list":
            if len(oa.items) != len(ob.items):
                return BF
            return zand(*[P.eq(self, x, y) for x, y in zip(oa.items, ob.items)])
        ida, idb = oa.meta.get("ident"), ob.meta.get("ident")
        if ida is not None and idb is not None:
            return ida == idb
        return BF

    def obj_len(self, r, g):
        o = self.obj(r)
        if o.kind in ("list", "set", "iter"):
            return C(len(o.items))
        if o.kind == "dict":
            if all(z3.is_true(it[2]) for it in o.items):
                return C(len(o.items))
            return S("int", z3.Sum([z3.If(it[2], 1, 0) for it in o.items]))
        if o.kind == "abslist":
            return S("int", o.meta["length"])
        if o.kind == "obj" and isinstance(o.cls, ClassInfo):
            raise OutOfSubset("len() of user object")
        return P.fresh("int", "len")

    @property
    def frame(self):
        return self.frames[-1]


VAL, RAISE = "val", "raise"


class Obligation:
    __slots__ = ("name", "props", "constraints", "goal", "where", "inputs", "kind", "lemma")

    def __init__(self, name, props, constraints, goal, where, inputs, kind="check", lemma=None):
        self.name = name
        self.props = props
        self.constraints = constraints
        self.goal = goal
        self.where = where
        self.inputs = inputs
        self.kind = kind
        self.lemma = lemma


class Engine:
    def __init__(self, repo=None, feas_timeout_ms=60, max_depth=40):
        self.repo = repo or Repo()
        self.notes = set()
        self.obligations = []
        self.handlers = {}       # qualname or tag -> handler(eng, st, recv, args, kwargs) -> outcomes
        self.global_cache = {}
        self.feas_timeout_ms = feas_timeout_ms
        self.max_depth = max_depth
        self.exc_ids = {}
        self.exc_by_id = {}
        self.cur_lemma = None
        self.cur_props = ()
        self.inputs = {}
        self.stats = {"forks": 0, "feas_checks": 0, "feas_time": 0.0, "paths": 0, "inlined": set()}
        self.merge_calls = True
        self.precise_strings = False
        self.class_cache = {}
        self.loop_invariants = {}
        self.post_init = {}
        self.paths_limit = 20000
        from . import builtins as B
        self.B = B

    # ------------------------------------------------------------------ feasibility
    def feasible(self, st, extra=None):
        cs = st.pc + ([extra] if extra is not None else [])
        for c in cs:
            if z3.is_false(c):
                return False
        if extra is not None and z3.is_true(extra):
            return True
        if extra is not None and len(st.pcvars) >= 0:
            cv = consts_of(extra)
            if cv and not (cv & st.pcvars) and not any(c.startswith("fn:") for c in cv) and len(cv) <= 2 and self._sat_alone(extra):
                # the condition only mentions symbols nothing else constrains yet: satisfiable on its own suffices
                return True
        t0 = time.time()
        # stage 1: propositional skeleton of the path condition (instant; catches g /\ not g)
        sk = z3.Solver()
        sk.set("timeout", 200)
        for c in cs:
            sk.add(bool_skeleton(c))
        if sk.check() == z3.unsat:
            self.stats["feas_checks"] += 1
            self.stats["feas_time"] += time.time() - t0
            return False
        s = z3.Solver()
        # the abstracted query is cheap: give it a generous budget so that verdicts do not depend on machine load
        s.set("timeout", self.feas_timeout_ms if self.precise_strings else 3000)
        if self.precise_strings:
            for c in st.defs:
                s.add(c)
            for c in cs:
                s.add(c)
        else:
            # stage 2: exact on integers / reals / enums / booleans, strings abstracted away (sound for pruning:
            # an abstraction that is unsatisfiable makes the path condition unsatisfiable)
            abst = [string_abstract(c) for c in st.defs] + [string_abstract(c) for c in cs]
            for c in abst:
                s.add(c)
            for c in abstraction_axioms(abst):
                s.add(c)
        r = s.check()
        self.stats["feas_checks"] += 1
        self.stats["feas_time"] += time.time() - t0
        return r != z3.unsat

    def _sat_alone(self, t):
        k = ("sat", t.get_id())
        r = self.class_cache.get(k)
        if r is None:
            s = z3.Solver()
            s.set("timeout", 50)
            s.add(t)
            r = s.check() == z3.sat
            self.class_cache[k] = r
            _PINNED.append(t)
        return r

    # ------------------------------------------------------------------ outcome helpers
    def ok(self, st, v):
        return [(st, (VAL, v))]

    def bind(self, outs, fn):
        res = []
        for st, (tag, v) in outs:
            if tag == RAISE:
                res.append((st, (tag, v)))
            else:
                res.extend(fn(st, v))
        return res

    def flush(self, st, v):
        """Turn pending conditional exceptions into exception paths."""
        if not st.pending:
            return [(st, (VAL, v))]
        pend = st.pending
        st.pending = []
        res = []
        gs = []
        for g, exc, msg in pend:
            gs.append(g)
            if self.feasible(st, g):
                s2 = st.clone()
                s2.assume(g)
                self.stats["forks"] += 1
                res.append(self.raise_new(s2, exc, msg))
        cont = znot(zor(*gs))
        if self.feasible(st, cont):
            st.assume(cont)
            res.append((st, (VAL, v)))
        return res

    def prim(self, st, fn, *args):
        try:
            v = fn(st, *args)
        except EmptyUnion:
            return []
        return self.flush(st, v)

    def branch(self, st, cond):
        """Fork on a z3 Bool; returns [(state, bool)] for feasible sides."""
        if z3.is_true(cond):
            return [(st, True)]
        if z3.is_false(cond):
            return [(st, False)]
        cond = z3.simplify(cond)
        if z3.is_true(cond):
            return [(st, True)]
        if z3.is_false(cond):
            return [(st, False)]
        t_ok = self.feasible(st, cond)
        f_ok = self.feasible(st, znot(cond))
        res = []
        if t_ok and f_ok:
            s2 = st.clone()
            self.stats["forks"] += 1
            st.assume(cond)
            s2.assume(znot(cond))
            return [(st, True), (s2, False)]
        if t_ok:
            st.assume(cond)
            return [(st, True)]
        if f_ok:
            st.assume(znot(cond))
            return [(st, False)]
        return res

    def truth_branch(self, st, v):
        """Evaluate truthiness of v and fork; list of (state, bool) plus exception outcomes."""
        cond = P.truth(st, v)
        res_exc = []
        outs = self.flush(st, None)
        res = []
        for s, (tag, x) in outs:
            if tag == RAISE:
                res_exc.append((s, (tag, x)))
            else:
                res.extend(self.branch(s, cond))
        return res, res_exc

    # ------------------------------------------------------------------ exceptions
    BUILTIN_EXC = {
        "BaseException": None, "Exception": "BaseException", "KeyboardInterrupt": "BaseException",
        "SystemExit": "BaseException", "GeneratorExit": "BaseException",
        "ArithmeticError": "Exception", "ZeroDivisionError": "ArithmeticError",
        "AssertionError": "Exception", "AttributeError": "Exception", "LookupError": "Exception",
        "IndexError": "LookupError", "KeyError": "LookupError", "NameError": "Exception",
        "OSError": "Exception", "IOError": "Exception", "FileNotFoundError": "OSError", "FileExistsError": "OSError",
        "PermissionError": "OSError", "IsADirectoryError": "OSError", "NotADirectoryError": "OSError",
        "TimeoutError": "OSError", "ConnectionError": "OSError",
        "RuntimeError": "Exception", "NotImplementedError": "RuntimeError", "RecursionError": "RuntimeError",
        "StopIteration": "Exception", "TypeError": "Exception", "ValueError": "Exception", "UnboundLocalError": "NameError",
        "UnicodeError": "ValueError", "MemoryError": "Exception",
        "queue.Empty": "Exception", "sqlite3.OperationalError": "Exception", "sqlite3.Error": "Exception",
        "msgpack.UnpackException": "Exception",
    }

    def exc_class_key(self, cref):
        return cref.info if isinstance(cref.info, str) else cref.info.qualname

    def exc_id(self, cref):
        k = self.exc_class_key(cref)
        if k not in self.exc_ids:
            i = len(self.exc_ids)
            self.exc_ids[k] = i
            self.exc_by_id[i] = cref
        return self.exc_ids[k]

    def class_bases(self, cref):
        """direct bases of a class as ClassRefs."""
        if isinstance(cref.info, str):
            b = self.BUILTIN_EXC.get(cref.info, "object" if cref.info != "object" else None)
            return [ClassRef(b)] if b else []
        info = cref.info
        if hasattr(info, "base_crefs"):
            return list(info.base_crefs)
        out = []
        for be in info.base_exprs:
            try:
                v = self.eval_const_expr(info.module, be)
            except OutOfSubset:
                continue
            if isinstance(v, C) and isinstance(v.v, ClassRef):
                out.append(v.v)
        return out

    def mro(self, cref):
        key = ("mro", self.exc_class_key(cref))
        if key in self.class_cache:
            return self.class_cache[key]
        res = [cref]
        for b in self.class_bases(cref):
            for c in self.mro(b):
                if c not in res:
                    res.append(c)
        self.class_cache[key] = res
        return res

    def is_subclass(self, a, b):
        return any(c == b for c in self.mro(a))

    def new_exc(self, st, cref, args=(), msg=""):
        o = HObj("exc", cref, {"args": T(list(args)), "original_exception": NONE}, meta={"msg": msg})
        return st.alloc(o)

    def raise_new(self, st, excname, msg=""):
        r = self.new_exc(st, ClassRef(excname), (C(msg),), msg)
        return (st, (RAISE, r))

    def exc_isinstance(self, st, excref, cref):
        """z3 Bool: exception object is an instance of class cref."""
        o = st.obj(excref)
        if isinstance(o.cls, ClassRef):
            return BT if self.is_subclass(o.cls, cref) else BF
        # symbolic class: o.cls = ("sym", term, [allowed crefs])
        _, term, allowed = o.cls
        return zor(*[term == self.exc_id(c) for c in allowed if self.is_subclass(c, cref)])

    def sym_exc(self, st, allowed, prefix="exc"):
        """exception object whose class is any of `allowed` (ClassRefs, exact classes)."""
        term = z3.Int(P.fresh_name(prefix))
        st.assume(zor(*[term == self.exc_id(c) for c in allowed]))
        o = HObj("exc", ("sym", term, list(allowed)), {"args": T([]), "original_exception": NONE})
        return st.alloc(o)

    # ------------------------------------------------------------------ name resolution
    def lookup_global(self, module, name):
        key = (module.name, name)
        if key in self.global_cache:
            return self.global_cache[key]
        v = self._lookup_global(module, name)
        self.global_cache[key] = v
        return v

    def _lookup_global(self, module, name):
        if name in module.functions:
            return C(FuncRef(module, module.functions[name]))
        if name in module.classes:
            return C(ClassRef(module.classes[name]))
        if name in module.assigns:
            ex = module.assigns[name]
            if isinstance(ex, ast.Call) and ast.unparse(ex.func) in ("logging.getLogger", "getLogger"):
                return C(ModuleRef("logging.Logger"))
            return self.eval_const_expr(module, ex)
        if name in module.imports:
            imp = module.imports[name]
            if imp[0] == "module":
                return C(ModuleRef(imp[1]))
            _, mod, attr = imp
            return self.module_attr(mod, attr)
        for sm in module.star_imports:
            if self.repo.has_module(sm):
                try:
                    return self.lookup_global(self.repo.module(sm), name)
                except OutOfSubset:
                    pass
        b = self.B.lookup_builtin(name)
        if b is not None:
            return b
        raise OutOfSubset("unresolved global %s in %s" % (name, module.name))

    def module_attr(self, modname, attr):
        if self.repo.has_module(modname):
            m = self.repo.module(modname)
            sub = modname + "." + attr
            if attr not in m.functions and attr not in m.classes and attr not in m.assigns \
                    and attr not in m.imports and self.repo.has_module(sub):
                return C(ModuleRef(sub))
            return self.lookup_global(m, attr)
        ext = self.B.lookup_external(modname + "." + attr)
        if ext is not None:
            return ext
        raise OutOfSubset("unmodelled external %s.%s" % (modname, attr))

    def eval_const_expr(self, module, expr):
        st = State(self)
        st.frames.append(Frame(module))
        outs = self.eval(st, expr)
        vals = [v for _, (tag, v) in outs if tag == VAL]
        if len(outs) != 1 or len(vals) != 1:
            raise OutOfSubset("module-level expression is not a constant: %s" % ast.unparse(expr))
        v = vals[0]
        if isinstance(v, R):
            # module level tuples/lists of constants only
            o = outs[0][0].obj(v)
            if o.kind == "list" and all(is_concrete(x) for x in o.items):
                return T(o.items)
            raise OutOfSubset("module-level object: %s" % ast.unparse(expr))
        return v

    def mangle(self, st, name):
        if name.startswith("__") and not name.endswith("__"):
            cls = st.frame.cls
            if cls is not None:
                return "_" + cls.name.lstrip("_") + name
        return name

    # ------------------------------------------------------------------ classes
    def class_lookup(self, cref, name):
        """find attribute `name` along the MRO: returns (kind, payload, owner ClassRef) or None"""
        for c in self.mro(cref):
            if isinstance(c.info, str):
                continue
            info = c.info
            if name in info.methods:
                return ("method", info.methods[name], c)
            if name in info.attrs:
                return ("attr", info.attrs[name], c)
        return None

    def enum_members(self, info):
        key = ("enum", info.qualname)
        if key not in self.class_cache:
            ms = []
            for i, n in enumerate([a for a in info.attr_order if not a.startswith("_")]):
                val = self.eval_const_expr(info.module, info.attrs[n])
                ms.append(EnumMember(info, n, py_of(val), i))
            self.class_cache[key] = ms
            info.bool_raises = "__bool__" in info.methods
        return self.class_cache[key]

    def is_enum(self, cref):
        if isinstance(cref.info, str):
            return False
        key = ("isenum", cref.info.qualname)
        if key not in self.class_cache:
            self.class_cache[key] = any(isinstance(c.info, str) and c.info in ("Enum", "enum.Enum")
                                        for c in self.mro(cref))
        return self.class_cache[key]

    def is_exc_class(self, cref):
        return self.is_subclass(cref, ClassRef("BaseException"))

    def dataclass_fields(self, cref):
        """ordered (name, default-expr|None, module) of a @dataclass, bases first."""
        fields = []
        for c in reversed(self.mro(cref)):
            if isinstance(c.info, str):
                continue
            for node in c.info.node.body:
                if isinstance(node, ast.AnnAssign) and isinstance(node.target, ast.Name):
                    nm = node.target.id
                    fields = [f for f in fields if f[0] != nm]
                    fields.append((nm, node.value, c.info.module))
        return fields

    # ------------------------------------------------------------------ expression evaluation
    def eval(self, st, e):
        m = getattr(self, "ev_" + type(e).__name__, None)
        if m is None:
            raise OutOfSubset("expression %s at line %s" % (type(e).__name__, getattr(e, "lineno", "?")))
        return m(st, e)

    def eval_list(self, st, exprs):
        """evaluate expressions left to right: list of (st, ('val', [vals])) | raise"""
        outs = [(st, (VAL, []))]
        for ex in exprs:
            nxt = []
            for s, (tag, acc) in outs:
                if tag == RAISE:
                    nxt.append((s, (tag, acc)))
                    continue
                if isinstance(ex, ast.Starred):
                    for s2, (t2, v2) in self.eval(s, ex.value):
                        if t2 == RAISE:
                            nxt.append((s2, (t2, v2)))
                        else:
                            nxt.append((s2, (VAL, acc + list(self.iter_concrete(s2, v2)))))
                    continue
                for s2, (t2, v2) in self.eval(s, ex):
                    if t2 == RAISE:
                        nxt.append((s2, (t2, v2)))
                    else:
                        nxt.append((s2, (VAL, acc + [v2])))
            outs = nxt
        return outs

    def ev_Constant(self, st, e):
        return self.ok(st, C(e.value))

    def ev_Name(self, st, e):
        n = e.id
        f = st.frame
        if n in f.locals:
            return self.ok(st, f.locals[n])
        if n in f.local_names:
            return [self.raise_new(st, "UnboundLocalError", "cannot access local variable '%s' where it is not associated with a value" % n)]
        cl = f.closure
        while cl is not None:
            live = cl
            if cl.func is not None:
                for fr in reversed(st.frames[:-1]):
                    if fr.func is cl.func:
                        live = fr
                        break
            if n in live.locals:
                return self.ok(st, live.locals[n])
            if n in cl.locals:
                return self.ok(st, cl.locals[n])
            cl = cl.closure
        return self.ok(st, self.lookup_global(f.module, n))

    def ev_JoinedStr(self, st, e):
        parts = [v.value for v in e.values if isinstance(v, ast.FormattedValue)]
        return self.bind(self.eval_list(st, parts), lambda s, vs: self.ok(s, P.fresh("str", "fstr")))

    def ev_Tuple(self, st, e):
        return self.bind(self.eval_list(st, e.elts), lambda s, vs: self.ok(s, T(vs)))

    def ev_List(self, st, e):
        return self.bind(self.eval_list(st, e.elts), lambda s, vs: self.ok(s, s.alloc(HObj("list", "list", items=list(vs)))))

    def ev_Set(self, st, e):
        return self.bind(self.eval_list(st, e.elts), lambda s, vs: self.ok(s, self.B.make_set(self, s, vs)))

    def ev_Dict(self, st, e):
        if any(k is None for k in e.keys):
            raise OutOfSubset("dict unpacking")
        n = len(e.keys)

        def fin(s, vs):
            d = s.alloc(HObj("dict", "dict"))
            for k, v in zip(vs[:n], vs[n:]):
                self.B.dict_set(self, s, d, k, v)
            return self.ok(s, d)
        return self.bind(self.eval_list(st, list(e.keys) + list(e.values)), fin)

    def ev_Lambda(self, st, e):
        return self.ok(st, C(FuncRef(st.frame.module, e, st.frame.cls, closure=st.frame)))

    def ev_Attribute(self, st, e):
        name = self.mangle(st, e.attr)
        return self.bind(self.eval(st, e.value), lambda s, v: self.getattr_v(s, v, name))

    def ev_Subscript(self, st, e):
        if isinstance(e.slice, ast.Slice):
            sl = e.slice
            if sl.step is not None:
                raise OutOfSubset("slice step")
            parts = [e.value] + [x if x is not None else ast.Constant(value=None) for x in (sl.lower, sl.upper)]

            def fin(s, vs):
                lo = None if sl.lower is None else vs[1]
                hi = None if sl.upper is None else vs[2]
                return self.getslice_v(s, vs[0], lo, hi)
            return self.bind(self.eval_list(st, parts), fin)
        return self.bind(self.eval_list(st, [e.value, e.slice]), lambda s, vs: self.getitem_v(s, vs[0], vs[1]))

    def ev_UnaryOp(self, st, e):
        def fin(s, v):
            if isinstance(e.op, ast.Not):
                brs, excs = self.truth_branch_merge(s, v)
                return excs + brs
            if isinstance(e.op, ast.USub):
                return self.prim(s, P.neg, v)
            if isinstance(e.op, ast.UAdd):
                return self.ok(s, v)
            raise OutOfSubset("unary op")
        return self.bind(self.eval(st, e.operand), fin)

    def truth_branch_merge(self, st, v):
        """`not v` without forking: returns ([outcome], [exception outcomes])"""
        cond = P.truth(st, v)
        outs = self.flush(st, None)
        res, excs = [], []
        for s, (tag, x) in outs:
            if tag == RAISE:
                excs.append((s, (tag, x)))
            else:
                res.append((s, (VAL, P.mk_bool(znot(cond)))))
        return res, excs

    def ev_BinOp(self, st, e):
        ops = {ast.Add: "+", ast.Sub: "-", ast.Mult: "*", ast.Div: "/", ast.Mod: "%"}
        op = ops.get(type(e.op))
        if op is None:
            raise OutOfSubset("binary operator %s" % type(e.op).__name__)
        def apply(s, vs):
            if op == "+" and self.B.is_bytes_token(s, vs[0]) and self.B.is_bytes_token(s, vs[1]):
                return self.ok(s, self.B.bytes_token_concat(self, s, vs[0], vs[1]))
            return self.prim(s, P.binop, op, vs[0], vs[1])
        return self.bind(self.eval_list(st, [e.left, e.right]), apply)

    def ev_BoolOp(self, st, e):
        is_and = isinstance(e.op, ast.And)

        def step(st, idx):
            def after(s, v):
                if idx == len(e.values) - 1:
                    return self.ok(s, v)
                base_pc, base_ver = len(s.pc), s.mark()
                brs, excs = self.truth_branch(s, v)
                res = list(excs)
                shortcut, cont = [], []
                for s2, b in brs:
                    if b != is_and:
                        shortcut.append((s2, (VAL, v)))
                    else:
                        cont.extend(step(s2, idx + 1))
                return res + self.merge_outcomes(shortcut + cont, base_pc, base_ver)
            return self.bind(self.eval(st, e.values[idx]), after)
        return step(st, 0)

    def ev_IfExp(self, st, e):
        def after(s, v):
            base_pc, base_ver = len(s.pc), s.mark()
            brs, excs = self.truth_branch(s, v)
            res = []
            for s2, b in brs:
                res.extend(self.eval(s2, e.body if b else e.orelse))
            return list(excs) + self.merge_outcomes(res, base_pc, base_ver)
        return self.bind(self.eval(st, e.test), after)

    def merge_outcomes(self, outs, base_pc, base_ver):
        """Merge value outcomes that share the path-condition prefix and did not touch the heap."""
        def ok_(s, v):
            return s.clean_since(base_ver) and not s.pending and not _refs_new(v, base_ver[1])
        vals = [(s, v) for s, (tag, v) in outs if tag == VAL and ok_(s, v)]
        rest = [(s, o) for s, o in outs if not (o[0] == VAL and ok_(s, o[1]))]
        if len(vals) <= 1 or not self.merge_calls:
            return outs
        # all must share the same prefix objects
        first = vals[0][0]
        for s, _ in vals[1:]:
            if len(s.pc) < base_pc or any(a is not b for a, b in zip(s.pc[:base_pc], first.pc[:base_pc])):
                return outs
        guards = [zand(*s.pc[base_pc:]) for s, _ in vals]
        try:
            mv = mk_union([(g, v) for g, (s, v) in zip(guards, vals)])
        except EmptyUnion:
            return rest
        merged = first
        seen = set(id(d) for d in merged.defs)
        for s, _ in vals[1:]:
            for d in s.defs:
                if id(d) not in seen:
                    merged.defs.append(d)
                    seen.add(id(d))
        merged.pc = merged.pc[:base_pc]
        g = zor(*guards)
        merged.assume(g)
        return rest + [(merged, (VAL, mv))]

    def ev_Compare(self, st, e):
        if len(e.ops) == 1:
            return self.bind(self.eval_list(st, [e.left, e.comparators[0]]),
                             lambda s, vs: self.compare_v(s, e.ops[0], vs[0], vs[1]))

        # chained: a < b < c  (evaluate all, no short circuit side effects in the subset)
        def fin(s, vs):
            outs = [(s, (VAL, TRUE))]
            for i, op in enumerate(e.ops):
                def stepf(s2, acc, i=i, op=op):
                    return self.bind(self.compare_v(s2, op, vs[i], vs[i + 1]),
                                     lambda s3, r: self.ok(s3, P.mk_bool(zand(P.truth(s3, acc), P.truth(s3, r)))))
                outs = self.bind(outs, stepf)
            return outs
        return self.bind(self.eval_list(st, [e.left] + list(e.comparators)), fin)

    def compare_v(self, st, op, a, b):
        if isinstance(op, (ast.Eq, ast.NotEq)):
            # user-defined __eq__ is not in the subset (dataclass eq handled structurally)
            t = self.eq_deep(st, a, b)
            return self.ok(st, P.mk_bool(t if isinstance(op, ast.Eq) else znot(t)))
        if isinstance(op, (ast.Is, ast.IsNot)):
            t = P.identical(st, a, b)
            return self.ok(st, P.mk_bool(t if isinstance(op, ast.Is) else znot(t)))
        if isinstance(op, (ast.In, ast.NotIn)):
            return self.bind(self.contains_v(st, b, a),
                             lambda s, r: self.ok(s, r if isinstance(op, ast.In) else P.mk_bool(znot(P.truth(s, r)))))
        sym = {ast.Lt: "<", ast.LtE: "<=", ast.Gt: ">", ast.GtE: ">="}[type(op)]
        return self.prim(st, P.compare, sym, a, b)

    def eq_deep(self, st, a, b):
        return P.eq(st, a, b)

    def contains_v(self, st, container, item):
        res = []
        for g, c in alts(container):
            s = st
            if len(alts(container)) > 1:
                if not self.feasible(st, g):
                    continue
                s = st.clone()
                s.assume(g)
            if isinstance(c, T):
                res.extend(self.ok(s, P.mk_bool(zor(*[P.eq(s, item, x) for x in c.items]))))
            elif P.is_str(c):
                outs = []
                for gi, it in alts(item):
                    if not P.is_str(it):
                        s.pend(gi, "TypeError", "'in <string>' requires string as left operand")
                outs = self.prim(s, lambda s_, c_=c: mk_union([(gi, P.s_contains(s_, c_, it)) for gi, it in alts(item) if P.is_str(it)]))
                res.extend(outs)
            elif isinstance(c, R):
                res.extend(self.B.obj_contains(self, s, c, item))
            elif isinstance(c, C) and c.v is None:
                res.append(self.raise_new(s, "TypeError", "argument of type 'NoneType' is not iterable"))
            else:
                raise OutOfSubset("`in` on %r" % (c,))
        return res

    def ev_Call(self, st, e):
        def with_f(s, fv):
            kwnames = [k.arg for k in e.keywords]
            if any(k is None for k in kwnames):
                raise OutOfSubset("**kwargs call")
            n = len(e.args)

            def with_args(s2, vs):
                # eval_list already expanded starred args; keyword values are the tail
                nk = len(e.keywords)
                pos = vs[:len(vs) - nk] if nk else vs
                kws = dict(zip(kwnames, vs[len(vs) - nk:])) if nk else {}
                return self.call_value(s2, fv, list(pos), kws, e)
            return self.bind(self.eval_list(s, list(e.args) + [k.value for k in e.keywords]), with_args)
        # super() special form
        if isinstance(e.func, ast.Name) and e.func.id == "super" and not e.args:
            f = st.frame
            return self.ok(st, C(SuperRef(ClassRef(f.cls), f.self_v)))
        return self.bind(self.eval(st, e.func), with_f)

    def ev_ListComp(self, st, e):
        return self.comprehension(st, e, "list")

    def ev_GeneratorExp(self, st, e):
        return self.comprehension(st, e, "list")

    def ev_SetComp(self, st, e):
        return self.comprehension(st, e, "set")

    def comprehension(self, st, e, kind):
        if len(e.generators) != 1:
            raise OutOfSubset("nested comprehension")
        gen = e.generators[0]

        def with_iter(s, itv):
            if isinstance(itv, R) and s.obj(itv).kind == "abslist":
                return self.B.abslist_comprehension(self, s, itv, e, gen)
            items = list(self.iter_concrete(s, itv))
            outs = [(s, (VAL, []))]
            for item in items:
                nxt = []
                for s2, (tag, acc) in outs:
                    if tag == RAISE:
                        nxt.append((s2, (tag, acc)))
                        continue
                    saved = dict(s2.frame.locals)
                    self.assign_target(s2, gen.target, item)
                    states = [(s2, True)]
                    excs = []
                    for cond in gen.ifs:
                        nstates = []
                        for s3, _ in states:
                            for s4, (t4, cv) in self.eval(s3, cond):
                                if t4 == RAISE:
                                    excs.append((s4, (t4, cv)))
                                    continue
                                brs, ex2 = self.truth_branch(s4, cv)
                                excs.extend(ex2)
                                nstates.extend(brs)
                        states = nstates
                        # keep only those that passed; the failed ones skip the element
                        passed = [(x, b) for x, b in states if b]
                        for x, b in states:
                            if not b:
                                nxt.append((x, (VAL, acc)))
                        states = passed
                    nxt.extend(excs)
                    for s3, _ in states:
                        for s4, (t4, ev) in self.eval(s3, e.elt):
                            if t4 == RAISE:
                                nxt.append((s4, (t4, ev)))
                            else:
                                nxt.append((s4, (VAL, acc + [ev])))
                outs = nxt

            def fin(s5, acc):
                if kind == "set":
                    return self.ok(s5, self.B.make_set(self, s5, acc))
                return self.ok(s5, s5.alloc(HObj("list", "list", items=list(acc))))
            return self.bind(outs, fin)
        return self.bind(self.eval(st, gen.iter), with_iter)

    def iter_concrete(self, st, v):
        """items of a concrete-length iterable (tuple, list, set, dict keys, eager iterator)"""
        if isinstance(v, T):
            return list(v.items)
        if isinstance(v, R):
            o = st.obj(v)
            if o.kind in ("list", "set"):
                return list(o.items)
            if o.kind == "iter":
                items = list(o.items)
                o.items = []
                st.touch(o)
                return items
            if o.kind == "dict":
                if all(z3.is_true(it[2]) for it in o.items):
                    return [it[0] for it in o.items]
        if isinstance(v, C) and isinstance(v.v, str):
            return [C(ch) for ch in v.v]
        raise OutOfSubset("iteration over %r" % (v,))

    # ------------------------------------------------------------------ attribute / item access
    def getattr_v(self, st, v, name, default=None):
        if isinstance(v, U) and name in self.B.STR_METHODS and any(P.is_str(b) for _, b in v.alts) \
                and all(P.is_str(b) or (isinstance(b, C) and b.v is None) for _, b in v.alts):
            return self.ok(st, C(Builtin("str." + name, v)))
        if isinstance(v, U):
            res = []
            for g, b in v.alts:
                if not self.feasible(st, g):
                    continue
                s = st.clone()
                s.assume(g)
                res.extend(self.getattr_v(s, b, name, default))
            return res
        return self.B.getattr_base(self, st, v, name, default)

    def setattr_v(self, st, v, name, val):
        if isinstance(v, U):
            res = []
            for g, b in v.alts:
                if not self.feasible(st, g):
                    continue
                s = st.clone()
                s.assume(g)
                res.extend(self.setattr_v(s, b, name, val))
            return res
        return self.B.setattr_base(self, st, v, name, val)

    def getitem_v(self, st, v, idx):
        if isinstance(v, U):
            res = []
            for g, b in v.alts:
                if not self.feasible(st, g):
                    continue
                s = st.clone()
                s.assume(g)
                res.extend(self.getitem_v(s, b, idx))
            return res
        return self.B.getitem_base(self, st, v, idx)

    def getslice_v(self, st, v, lo, hi):
        if isinstance(v, U):
            res = []
            for g, b in v.alts:
                if not self.feasible(st, g):
                    continue
                s = st.clone()
                s.assume(g)
                res.extend(self.getslice_v(s, b, lo, hi))
            return res
        if isinstance(v, R):
            o = st.obj(v)
            if o.kind == "list" and (lo is None or is_concrete(lo)) and (hi is None or is_concrete(hi)):
                sl = slice(None if lo is None else py_of(lo), None if hi is None else py_of(hi))
                return self.ok(st, st.alloc(HObj("list", "list", items=list(o.items[sl]))))
            raise OutOfSubset("slice of object")
        if isinstance(v, C) and v.v is None:
            return [self.raise_new(st, "TypeError", "'NoneType' object is not subscriptable")]
        return self.prim(st, lambda s: P.s_slice(s, v, lo, hi, BT))

    # ------------------------------------------------------------------ calls
    def call_value(self, st, fv, args, kwargs, node=None):
        if isinstance(fv, U):
            res = []
            for g, b in fv.alts:
                if not self.feasible(st, g):
                    continue
                s = st.clone()
                s.assume(g)
                res.extend(self.call_value(s, b, args, kwargs, node))
            return res
        return self.B.call_base(self, st, fv, args, kwargs, node)

    def call_function(self, st, fref, args, kwargs, self_v=None):
        """Inline a repo function (FunctionDef or Lambda)."""
        qn = fref.qualname
        h = self.handlers.get(qn)
        if h is not None:
            return h(self, st, self_v, args, kwargs)
        if st.depth >= self.max_depth:
            raise OutOfSubset("inlining depth exceeded at %s (recursion needs a contract)" % qn)
        node = fref.node
        if not isinstance(node, ast.Lambda):
            self.repo.note_use(fref.module, node, qn)
            self.stats["inlined"].add(qn)
        fr = Frame(fref.module, fref.cls, fref, closure=fref.closure)
        fr.self_v = self_v
        fr.local_names = _assigned_names(node)
        allargs = ([self_v] if self_v is not None else []) + list(args)
        outs0 = self.bind_params(st, fr, node.args, allargs, kwargs, qn)
        res = []
        is_gen = (not isinstance(node, ast.Lambda)) and any(isinstance(n, (ast.Yield, ast.YieldFrom)) for n in ast.walk(node)
                                                           if not isinstance(n, ast.Lambda))
        for s, (tag, _) in outs0:
            if tag == RAISE:
                res.append((s, (tag, _)))
                continue
            base_pc, base_ver = len(s.pc), s.mark()
            s.frames.append(fr.copy() if len(outs0) > 1 else fr)
            s.depth += 1
            if is_gen:
                s.frame.yields = []
            if isinstance(node, ast.Lambda):
                body_outs = [(s2, ("return", v) if t2 == VAL else (t2, v)) for s2, (t2, v) in self.eval(s, node.body)]
            else:
                body_outs = self.exec_block(s, node.body)
            call_outs = []
            for s2, (t2, v2) in body_outs:
                fr2 = s2.frames.pop()
                s2.depth -= 1
                if t2 == "raise":
                    call_outs.append((s2, (RAISE, v2)))
                elif t2 in ("next", "return"):
                    if is_gen:
                        it = s2.alloc(HObj("iter", "iter", items=list(fr2.yields)))
                        call_outs.append((s2, (VAL, it)))
                    else:
                        call_outs.append((s2, (VAL, v2 if t2 == "return" and v2 is not None else NONE)))
                else:
                    raise OutOfSubset("break/continue escaped function %s" % qn)
            res.extend(self.merge_outcomes(call_outs, base_pc, base_ver))
        self.stats["paths"] = max(self.stats["paths"], len(res))
        if len(res) > self.paths_limit:
            raise OutOfSubset("path explosion in %s (%d paths)" % (qn, len(res)))
        return res

    def bind_params(self, st, fr, a, args, kwargs, qn):
        params = [p.arg for p in a.posonlyargs + a.args]
        defaults = [None] * (len(params) - len(a.defaults)) + list(a.defaults)
        loc = fr.locals
        args = list(args)
        kwargs = dict(kwargs)
        outs = [(st, (VAL, None))]
        for i, p in enumerate(params):
            if i < len(args):
                loc[p] = args[i]
            elif p in kwargs:
                loc[p] = kwargs.pop(p)
            elif defaults[i] is not None:
                loc[p] = self.eval_default(fr, defaults[i])
            else:
                return [self.raise_new(st, "TypeError", "%s missing argument %s" % (qn, p))]
        extra = args[len(params):]
        if a.vararg:
            loc[a.vararg.arg] = T(extra)
        elif extra:
            return [self.raise_new(st, "TypeError", "%s takes %d positional arguments" % (qn, len(params)))]
        for p, d in zip(a.kwonlyargs, a.kw_defaults):
            if p.arg in kwargs:
                loc[p.arg] = kwargs.pop(p.arg)
            elif d is not None:
                loc[p.arg] = self.eval_default(fr, d)
            else:
                return [self.raise_new(st, "TypeError", "%s missing keyword argument %s" % (qn, p.arg))]
        if a.kwarg:
            raise OutOfSubset("**kwargs parameter in %s" % qn)
        if kwargs:
            return [self.raise_new(st, "TypeError", "%s got unexpected keyword %s" % (qn, list(kwargs)))]
        return outs

    def eval_default(self, fr, d):
        st = State(self)
        f2 = Frame(fr.module, fr.cls)
        st.frames.append(f2)
        outs = self.eval(st, d)
        if len(outs) != 1 or outs[0][1][0] != VAL or isinstance(outs[0][1][1], R):
            raise OutOfSubset("non-constant default argument %s" % ast.unparse(d))
        return outs[0][1][1]

    # ------------------------------------------------------------------ statements
    def exec_block(self, st, stmts):
        outs = [(st, ("next", None))]
        for stmt in stmts:
            nxt = []
            for s, o in outs:
                if o[0] != "next":
                    nxt.append((s, o))
                else:
                    nxt.extend(self.exec_stmt(s, stmt))
            outs = nxt
            if len(outs) > self.paths_limit:
                raise OutOfSubset("path explosion (%d paths)" % len(outs))
        return outs

    def exec_stmt(self, st, stmt):
        m = getattr(self, "ex_" + type(stmt).__name__, None)
        if m is None:
            raise OutOfSubset("statement %s at line %s" % (type(stmt).__name__, getattr(stmt, "lineno", "?")))
        return m(st, stmt)

    def lift_expr(self, outs, fn=None):
        """expression outcomes -> statement outcomes"""
        res = []
        for s, (tag, v) in outs:
            if tag == RAISE:
                res.append((s, ("raise", v)))
            elif fn is None:
                res.append((s, ("next", None)))
            else:
                res.extend(fn(s, v))
        return res

    def ex_Expr(self, st, stmt):
        if isinstance(stmt.value, ast.Constant):
            return [(st, ("next", None))]
        if isinstance(stmt.value, (ast.Yield, ast.YieldFrom)):
            return self.exec_yield(st, stmt.value)
        return self.lift_expr(self.eval(st, stmt.value))

    def exec_yield(self, st, y):
        if isinstance(y, ast.Yield):
            def f(s, v):
                s.frame.yields.append(v)
                return [(s, ("next", None))]
            val = y.value if y.value is not None else ast.Constant(value=None)
            return self.lift_expr(self.eval(st, val), f)

        def g(s, v):
            s.frame.yields.extend(self.iter_concrete(s, v))
            return [(s, ("next", None))]
        return self.lift_expr(self.eval(st, y.value), g)

    def ex_Pass(self, st, stmt):
        return [(st, ("next", None))]

    def ex_Break(self, st, stmt):
        return [(st, ("break", None))]

    def ex_Continue(self, st, stmt):
        return [(st, ("continue", None))]

    def ex_Global(self, st, stmt):
        raise OutOfSubset("global statement")

    def ex_Import(self, st, stmt):
        for a in stmt.names:
            st.frame.locals[a.asname or a.name.split(".")[0]] = C(ModuleRef(a.name if a.asname else a.name.split(".")[0]))
        return [(st, ("next", None))]

    def ex_ImportFrom(self, st, stmt):
        mod = st.frame.module._resolve_rel(stmt.module, stmt.level)
        for a in stmt.names:
            st.frame.locals[a.asname or a.name] = self.module_attr(mod, a.name)
        return [(st, ("next", None))]

    def ex_Return(self, st, stmt):
        if stmt.value is None:
            return [(st, ("return", NONE))]
        return self.lift_expr(self.eval(st, stmt.value), lambda s, v: [(s, ("return", v))])

    def ex_Assign(self, st, stmt):
        def f(s, v):
            outs = [(s, ("next", None))]
            for tgt in stmt.targets:
                nxt = []
                for s2, o in outs:
                    if o[0] != "next":
                        nxt.append((s2, o))
                    else:
                        nxt.extend(self.assign_target(s2, tgt, v))
                outs = nxt
            return outs
        return self.lift_expr(self.eval(st, stmt.value), f)

    def ex_AnnAssign(self, st, stmt):
        if stmt.value is None:
            return [(st, ("next", None))]
        return self.lift_expr(self.eval(st, stmt.value), lambda s, v: self.assign_target(s, stmt.target, v))

    def ex_AugAssign(self, st, stmt):
        ops = {ast.Add: "+", ast.Sub: "-", ast.Mult: "*", ast.Div: "/"}
        op = ops.get(type(stmt.op))
        if op is None:
            raise OutOfSubset("augmented operator")
        load = _as_load(stmt.target)

        def f(s, vs):
            return self.lift_expr(self.prim(s, P.binop, op, vs[0], vs[1]),
                                  lambda s2, r: self.assign_target(s2, stmt.target, r))
        return self.lift_expr(self.eval_list(st, [load, stmt.value]), f)

    def assign_target(self, st, tgt, v):
        """returns statement outcomes"""
        if isinstance(tgt, ast.Name):
            st.frame.locals[tgt.id] = v
            return [(st, ("next", None))]
        if isinstance(tgt, ast.Attribute):
            name = self.mangle(st, tgt.attr)
            return self.lift_expr(self.eval(st, tgt.value),
                                  lambda s, ov: self.lift_expr(self.setattr_v(s, ov, name, v)))
        if isinstance(tgt, ast.Subscript):
            if isinstance(tgt.slice, ast.Slice):
                raise OutOfSubset("slice assignment")
            return self.lift_expr(self.eval_list(st, [tgt.value, tgt.slice]),
                                  lambda s, vs: self.lift_expr(self.B.setitem_base(self, s, vs[0], vs[1], v)))
        if isinstance(tgt, (ast.Tuple, ast.List)):
            res = []
            for g, b in alts(v):
                s = st
                if len(alts(v)) > 1:
                    if not self.feasible(st, g):
                        continue
                    s = st.clone()
                    s.assume(g)
                if isinstance(b, C) and b.v is None:
                    r = self.raise_new(s, "TypeError", "cannot unpack non-iterable NoneType object")
                    res.append((r[0], ("raise", r[1][1])))
                    continue
                try:
                    items = self.iter_concrete(s, b)
                except OutOfSubset:
                    if isinstance(b, (O, S)) or (isinstance(b, R) and s.obj(b).kind not in ("list", "set", "iter", "dict")):
                        # foreign value being unpacked: arity unknown
                        raise
                    raise
                if len(items) != len(tgt.elts):
                    r = self.raise_new(s, "ValueError", "unpack arity mismatch")
                    res.append((r[0], ("raise", r[1][1])))
                    continue
                outs = [(s, ("next", None))]
                for t_i, v_i in zip(tgt.elts, items):
                    nxt = []
                    for s2, o in outs:
                        if o[0] != "next":
                            nxt.append((s2, o))
                        else:
                            nxt.extend(self.assign_target(s2, t_i, v_i))
                    outs = nxt
                res.extend(outs)
            return res
        raise OutOfSubset("assignment target %s" % type(tgt).__name__)

    def ex_Delete(self, st, stmt):
        outs = [(st, ("next", None))]
        for tgt in stmt.targets:
            nxt = []
            for s, o in outs:
                if o[0] != "next":
                    nxt.append((s, o))
                    continue
                if isinstance(tgt, ast.Subscript):
                    nxt.extend(self.lift_expr(self.eval_list(s, [tgt.value, tgt.slice]),
                                              lambda s2, vs: self.lift_expr(self.B.delitem_base(self, s2, vs[0], vs[1]))))
                elif isinstance(tgt, ast.Name):
                    s.frame.locals.pop(tgt.id, None)
                    nxt.append((s, o))
                else:
                    raise OutOfSubset("del target")
            outs = nxt
        return outs

    def ex_If(self, st, stmt):
        def f(s, v):
            brs, excs = self.truth_branch(s, v)
            res = [(s2, ("raise", x)) for s2, (_, x) in excs]
            for s2, b in brs:
                res.extend(self.exec_block(s2, stmt.body if b else stmt.orelse))
            return res
        return self.lift_expr(self.eval(st, stmt.test), f)

    def ex_Assert(self, st, stmt):
        def f(s, v):
            brs, excs = self.truth_branch(s, v)
            res = [(s2, ("raise", x)) for s2, (_, x) in excs]
            for s2, b in brs:
                if b:
                    res.append((s2, ("next", None)))
                else:
                    r = self.raise_new(s2, "AssertionError", "assert at line %d" % stmt.lineno)
                    res.append((r[0], ("raise", r[1][1])))
            return res
        return self.lift_expr(self.eval(st, stmt.test), f)

    def ex_Raise(self, st, stmt):
        if stmt.exc is None:
            cur = st.ghost.get("handling")
            if not cur:
                raise OutOfSubset("bare raise outside handler")
            return [(st, ("raise", cur[-1]))]

        def f(s, v):
            if isinstance(v, C) and isinstance(v.v, ClassRef):
                return self.lift_expr(self.call_value(s, v, [], {}), lambda s2, ev: [(s2, ("raise", ev))])
            if isinstance(v, R) and s.obj(v).kind == "exc":
                return [(s, ("raise", v))]
            raise OutOfSubset("raise of %r" % (v,))
        return self.lift_expr(self.eval(st, stmt.exc), f)

    def ex_Try(self, st, stmt):
        body_outs = self.exec_block(st, stmt.body)
        after_handlers = []
        for s, o in body_outs:
            if o[0] == "raise":
                after_handlers.extend(self.dispatch_handlers(s, o[1], stmt.handlers))
            elif o[0] == "next" and stmt.orelse:
                after_handlers.extend(self.exec_block(s, stmt.orelse))
            else:
                after_handlers.append((s, o))
        if not stmt.finalbody:
            return after_handlers
        res = []
        for s, o in after_handlers:
            for s2, o2 in self.exec_block(s, stmt.finalbody):
                if o2[0] == "next":
                    res.append((s2, o))       # resume the pending outcome
                else:
                    res.append((s2, o2))      # finally overrides
        return res

    def dispatch_handlers(self, st, exc, handlers):
        """try handlers in order; fork on symbolic exception class"""
        res = []
        cur = st
        for h in handlers:
            if h.type is None:
                cond = BT
            else:
                tv = self.eval(cur, h.type)
                if len(tv) != 1 or tv[0][1][0] != VAL:
                    raise OutOfSubset("except clause type expression")
                cur = tv[0][0]
                cv = tv[0][1][1]
                crefs = [x.v for x in (cv.items if isinstance(cv, T) else [cv])]
                cond = zor(*[self.exc_isinstance(cur, exc, c) for c in crefs])
            brs = self.branch(cur, cond)
            nxt = None
            for s, b in brs:
                if b:
                    if h.name:
                        s.frame.locals[h.name] = exc
                    hs = list(s.ghost.get("handling", ()))
                    s.ghost["handling"] = hs + [exc]
                    for s2, o2 in self.exec_block(s, h.body):
                        s2.ghost["handling"] = list(s2.ghost.get("handling", ()))[:-1]
                        res.append((s2, o2))
                else:
                    nxt = s
            if nxt is None:
                return res
            cur = nxt
        res.append((cur, ("raise", exc)))
        return res

    def ex_With(self, st, stmt):
        if len(stmt.items) != 1:
            raise OutOfSubset("multiple with items")
        item = stmt.items[0]

        def f(s, cm):
            return self.lift_expr(self.B.with_enter(self, s, cm), lambda s2, entered: self._with_body(s2, stmt, item, cm, entered))
        return self.lift_expr(self.eval(st, item.context_expr), f)

    def _with_body(self, st, stmt, item, cm, entered):
        outs = [(st, ("next", None))]
        if item.optional_vars is not None:
            outs = self.assign_target(st, item.optional_vars, entered)
        res = []
        for s, o in outs:
            if o[0] != "next":
                res.append((s, o))
                continue
            for s2, o2 in self.exec_block(s, stmt.body):
                for s3, (t3, v3) in self.B.with_exit(self, s2, cm, o2):
                    if t3 == RAISE:
                        res.append((s3, ("raise", v3)))
                    else:
                        res.append((s3, o2))
        return res

    def ex_For(self, st, stmt):
        if stmt.orelse:
            raise OutOfSubset("for/else")

        def f(s, itv):
            if isinstance(itv, R) and "iter" in s.obj(itv).meta:
                itv = s.obj(itv).meta["iter"](self, s, itv)
            if isinstance(itv, R) and s.obj(itv).kind in ("abslist",):
                return self.B.abslist_for(self, s, itv, stmt)
            if isinstance(itv, U):
                res = []
                for g, b in itv.alts:
                    if not self.feasible(s, g):
                        continue
                    s2 = s.clone()
                    s2.assume(g)
                    res.extend(f(s2, b))
                return res
            if isinstance(itv, C) and itv.v is None:
                r = self.raise_new(s, "TypeError", "'NoneType' object is not iterable")
                return [(r[0], ("raise", r[1][1]))]
            items = self.iter_concrete(s, itv)
            outs = [(s, ("next", None))]
            done = []
            for item in items:
                nxt = []
                for s2, o in outs:
                    for s3, o3 in self.assign_target(s2, stmt.target, item):
                        if o3[0] != "next":
                            done.append((s3, o3))
                            continue
                        for s4, o4 in self.exec_block(s3, stmt.body):
                            if o4[0] in ("next", "continue"):
                                nxt.append((s4, ("next", None)))
                            elif o4[0] == "break":
                                done.append((s4, ("next", None)))
                            else:
                                done.append((s4, o4))
                outs = nxt
            return done + outs
        return self.lift_expr(self.eval(st, stmt.iter), f)

    def ex_While(self, st, stmt):
        key = (st.frame.func.qualname if st.frame.func else "?", stmt.lineno)
        inv = self.find_loop_contract(st, stmt)
        if inv is not None:
            return inv(self, st, stmt)
        # concrete unrolling while the test is decided concretely (at most 6 iterations); as soon as the test becomes
        # symbolic, or the loop runs longer, the whole loop is handled by arbitrary-iteration abstraction from the pre-state
        st0 = st.clone()
        try:
            return self._unroll_while(st, stmt, 6)
        except _NeedsAbstraction:
            return self.B.abstract_while(self, st0, stmt)

    def _unroll_while(self, st, stmt, limit):
        res = []
        outs = [(st, ("next", None))]
        for _ in range(limit):
            nxt = []
            for s, o in outs:
                touts = self.eval(s, stmt.test)
                if len(touts) != 1 or touts[0][1][0] != VAL:
                    raise _NeedsAbstraction()
                s2, (t2, cv) = touts[0]
                tv = z3.simplify(P.truth(s2, cv))
                if s2.pending or not (z3.is_true(tv) or z3.is_false(tv)):
                    raise _NeedsAbstraction()
                if z3.is_false(tv):
                    res.append((s2, ("next", None)))
                    continue
                for s4, o4 in self.exec_block(s2, stmt.body):
                    if o4[0] in ("next", "continue"):
                        nxt.append((s4, ("next", None)))
                    elif o4[0] == "break":
                        res.append((s4, ("next", None)))
                    else:
                        res.append((s4, o4))
            outs = nxt
            if not outs:
                return res
        raise _NeedsAbstraction()

    def find_loop_contract(self, st, stmt):
        fn = st.frame.func.qualname if st.frame.func else None
        return self.loop_invariants.get((fn, stmt.lineno)) or self.loop_invariants.get(fn)

    def ex_FunctionDef(self, st, stmt):
        st.frame.locals[stmt.name] = C(FuncRef(st.frame.module, stmt, st.frame.cls, closure=st.frame))
        return [(st, ("next", None))]

    def ex_ClassDef(self, st, stmt):
        info = ClassInfo(st.frame.module, stmt)
        info.closure = st.frame
        st.frame.locals[stmt.name] = C(ClassRef(info))
        return [(st, ("next", None))]


_assigned_cache = {}


def _assigned_names(node):
    """names bound by assignment somewhere in a function body (its local scope, excluding parameters)"""
    key = id(node)
    if key in _assigned_cache:
        return _assigned_cache[key]
    names = set()
    if not isinstance(node, ast.Lambda):
        def visit(n, top):
            for ch in ast.iter_child_nodes(n):
                if isinstance(ch, (ast.FunctionDef, ast.AsyncFunctionDef, ast.ClassDef)):
                    names.add(ch.name)
                    continue
                if isinstance(ch, ast.Lambda):
                    continue
                if isinstance(ch, (ast.ListComp, ast.SetComp, ast.DictComp, ast.GeneratorExp)):
                    continue
                if isinstance(ch, ast.Name) and isinstance(ch.ctx, ast.Store):
                    names.add(ch.id)
                if isinstance(ch, ast.ExceptHandler) and ch.name:
                    names.add(ch.name)
                visit(ch, False)
        visit(node, True)
        params = set(a.arg for a in node.args.posonlyargs + node.args.args + node.args.kwonlyargs)
        if node.args.vararg:
            params.add(node.args.vararg.arg)
        if node.args.kwarg:
            params.add(node.args.kwarg.arg)
        names -= params
    res = frozenset(names)
    _assigned_cache[key] = res
    return res


def _refs_new(v, water):
    """does value v reference a heap object allocated after the watermark?"""
    if isinstance(v, R):
        return v.addr > water
    if isinstance(v, T):
        return any(_refs_new(x, water) for x in v.items)
    if isinstance(v, U):
        return any(_refs_new(x, water) for _, x in v.alts)
    if isinstance(v, C) and isinstance(v.v, BoundMethod):
        return _refs_new(v.v.self_v, water)
    if isinstance(v, C) and isinstance(v.v, Builtin) and v.v.recv is not None:
        return _refs_new(v.v.recv, water)
    return False


def _as_load(t):
    t2 = ast.parse(ast.unparse(t), mode="eval").body
    ast.copy_location(t2, t)
    for n in ast.walk(t2):
        if not hasattr(n, "lineno"):
            n.lineno = getattr(t, "lineno", 0)
            n.col_offset = 0
    return t2
