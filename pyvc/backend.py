"""SMT back ends: z3 (in process and pooled) and cvc5 (pooled), verdict merge.

An obligation is `constraints /\\ not goal`; `unsat` means discharged.
"""
import multiprocessing as mp
import os
import time
import z3

_DECL_RE = None


def to_smt2(constraints, goal):
    s = z3.Solver()
    for c in constraints:
        s.add(c)
    s.add(z3.Not(goal))
    return s.to_smt2()


def has_strings(constraints, goal):
    txt_sorts = set()

    seen = set()

    def walk(e):
        if e.get_id() in seen:
            return False
        seen.add(e.get_id())
        if z3.is_string(e) or (z3.is_expr(e) and e.sort().kind() in (z3.Z3_SEQ_SORT, z3.Z3_RE_SORT)):
            return True
        return any(walk(c) for c in e.children())
    return any(walk(c) for c in list(constraints) + [goal])


def _solve_z3(smt2, timeout_ms, want_model, seed=0):
    s = z3.Solver()
    s.set("timeout", int(timeout_ms))
    if seed:
        s.set("random_seed", int(seed) % 100000)
    s.from_string(smt2)
    t0 = time.time()
    r = s.check()
    dt = time.time() - t0
    model = None
    if r == z3.sat and want_model:
        m = s.model()
        model = {}
        for d in m.decls():
            if d.arity() == 0:
                model[d.name()] = _z3_val(m[d])
    return (str(r), dt, model)


def _z3_val(v):
    try:
        if z3.is_string_value(v):
            return ("str", v.as_string())
        if z3.is_int_value(v):
            return ("int", v.as_long())
        if z3.is_rational_value(v):
            return ("real", "%s/%s" % (v.numerator_as_long(), v.denominator_as_long()))
        if z3.is_true(v):
            return ("bool", True)
        if z3.is_false(v):
            return ("bool", False)
        if z3.is_algebraic_value(v):
            return ("real", v.approx(10).as_string())
    except Exception:
        pass
    return ("other", str(v))


def _solve_cvc5(smt2, timeout_ms, want_model, seed=0):
    import cvc5
    slv = cvc5.Solver()
    slv.setOption("tlimit-per", str(int(timeout_ms)))
    slv.setOption("strings-exp", "true")
    if want_model:
        slv.setOption("produce-models", "true")
        slv.setOption("strings-fmf", "true")
    if seed:
        slv.setOption("seed", str(int(seed) % 100000))
    slv.setLogic("ALL")
    text = smt2
    # z3 emits (check-sat) at the end; run commands through the parser
    parser = cvc5.InputParser(slv)
    parser.setStringInput(cvc5.InputLanguage.SMT_LIB_2_6, text, "obligation")
    sm = parser.getSymbolManager()
    t0 = time.time()
    result = "unknown"
    while True:
        cmd = parser.nextCommand()
        if cmd.isNull():
            break
        out = cmd.invoke(slv, sm)
        o = str(out).strip()
        if o in ("sat", "unsat", "unknown"):
            result = o
    dt = time.time() - t0
    model = None
    if result == "sat" and want_model:
        model = {}
        try:
            for t in sm.getDeclaredTerms():
                try:
                    v = slv.getValue(t)
                    model[str(t)] = _cvc5_val(v)
                except Exception:
                    pass
        except Exception:
            pass
    return (result, dt, model)


def _cvc5_val(v):
    try:
        if v.isStringValue():
            return ("str", v.getStringValue())
        if v.isIntegerValue():
            return ("int", int(v.getIntegerValue()))
        if v.isRealValue():
            return ("real", str(v.getRealValue()))
        if v.isBooleanValue():
            return ("bool", bool(v.getBooleanValue()))
    except Exception:
        pass
    return ("other", str(v))


def _task(args):
    idx, smt2, solver, timeout_ms, want_model, seed = args
    try:
        if solver == "z3":
            r = _solve_z3(smt2, timeout_ms, want_model, seed)
        else:
            r = _solve_cvc5(smt2, timeout_ms, want_model, seed)
        return (idx, solver) + r
    except Exception as e:  # solver crash / parse error: reported as an error verdict, never as sat
        return (idx, solver, "error:%s" % (str(e)[:300]), 0.0, None)


def _child(task, conn):
    try:
        conn.send(_task(task))
    except Exception as e:
        try:
            conn.send((task[0], task[2], "error:%s" % e, 0.0, None))
        except Exception:
            pass
    finally:
        conn.close()


def run_tasks(tasks, jobs, grace_s=3.0):
    """Run solver tasks in forked children, at most `jobs` at a time, each with a hard kill
    at its own timeout + grace.  Yields (idx, solver, status, seconds, model)."""
    from multiprocessing.connection import wait
    ctx = mp.get_context("fork")
    queue = list(tasks)[::-1]
    running = {}
    while queue or running:
        while queue and len(running) < jobs:
            t = queue.pop()
            parent, child = ctx.Pipe(duplex=False)
            p = ctx.Process(target=_child, args=(t, child), daemon=True)
            p.start()
            child.close()
            running[parent] = (p, t, time.time() + t[3] / 1000.0 + grace_s, time.time())
        ready = wait(list(running.keys()), timeout=0.25)
        now = time.time()
        for conn in list(running.keys()):
            p, t, deadline, t0 = running[conn]
            if conn in ready:
                try:
                    res = conn.recv()
                except EOFError:
                    res = (t[0], t[2], "error:solver process died", now - t0, None)
                conn.close()
                p.join(timeout=1)
                del running[conn]
                yield res
            elif now > deadline:
                p.terminate()
                p.join(timeout=1)
                if p.is_alive():
                    p.kill()
                conn.close()
                del running[conn]
                yield (t[0], t[2], "timeout", now - t0, None)


class Result:
    __slots__ = ("status", "solver", "time", "model", "log")

    def __init__(self):
        self.status = "unknown"
        self.solver = None
        self.time = 0.0
        self.model = None
        self.log = []


def discharge(obligations, timeout_s=20, both=False, jobs=None, seed=0, progress=None):
    """Discharge obligations; returns list of Result aligned with the input.

    Strategy: (1) string-free obligations are tried in-process with z3 (fast path);
    (2) everything left goes to a process pool: string obligations to cvc5 first then z3,
    others to z3 then cvc5; (3) with both=True every obligation is sent to both solvers and a
    sat/unsat disagreement is reported as status 'disagree'.
    """
    jobs = jobs or min(16, os.cpu_count() or 4)
    results = [Result() for _ in obligations]
    smt = [None] * len(obligations)
    strs = [False] * len(obligations)
    pending = []
    for i, ob in enumerate(obligations):
        strs[i] = has_strings(ob.constraints, ob.goal)
        if not strs[i] and not both:
            s = z3.Solver()
            s.set("timeout", 2000)
            for c in ob.constraints:
                s.add(c)
            s.add(z3.Not(ob.goal))
            t0 = time.time()
            r = s.check()
            dt = time.time() - t0
            results[i].log.append(("z3-inproc", str(r), round(dt, 4)))
            if r == z3.unsat:
                results[i].status = "unsat"
                results[i].solver = "z3"
                results[i].time = dt
                continue
        pending.append(i)
    if not pending:
        return results
    for i in pending:
        smt[i] = to_smt2(obligations[i].constraints, obligations[i].goal)

    def first_solver(i):
        return "cvc5" if strs[i] else "z3"

    def other(s):
        return "z3" if s == "cvc5" else "cvc5"

    tasks = []
    for i in pending:
        fs = first_solver(i)
        tasks.append((i, smt[i], fs, timeout_s * 1000, False, seed))
        if both:
            tasks.append((i, smt[i], other(fs), timeout_s * 1000, False, seed))
    if True:
        retry = []
        verdicts = {}
        for idx, solver, status, dt, model in run_tasks(tasks, jobs):
            results[idx].log.append((solver, status, round(dt, 3)))
            verdicts.setdefault(idx, {})[solver] = (status, dt)
            if progress:
                progress(idx, solver, status, dt)
        for idx in pending:
            v = verdicts.get(idx, {})
            stats = {s_: x[0] for s_, x in v.items()}
            if both and "sat" in stats.values() and "unsat" in stats.values():
                results[idx].status = "disagree"
                continue
            if "unsat" in stats.values():
                sv = [s_ for s_ in v if v[s_][0] == "unsat"][0]
                results[idx].status, results[idx].solver, results[idx].time = "unsat", sv, v[sv][1]
            elif "sat" in stats.values():
                sv = [s_ for s_ in v if v[s_][0] == "sat"][0]
                results[idx].status, results[idx].solver, results[idx].time = "sat", sv, v[sv][1]
            elif not both:
                retry.append(idx)
            else:
                results[idx].status = "unknown"
        # second solver for unknowns
        tasks2 = [(i, smt[i], other(first_solver(i)), timeout_s * 1000, False, seed) for i in retry]
        for idx, solver, status, dt, model in run_tasks(tasks2, jobs):
            results[idx].log.append((solver, status, round(dt, 3)))
            if status in ("unsat", "sat"):
                results[idx].status, results[idx].solver, results[idx].time = status, solver, dt
            else:
                results[idx].status = "unknown"
        # models for sat / unknown obligations (for replay)
        need = [i for i in pending if results[i].status in ("sat", "unknown")]
        tasks3 = []
        mt = min(timeout_s, 15) * 1000
        for i in need:
            tasks3.append((i, smt[i], "z3", mt, True, seed))
            tasks3.append((i, smt[i], "cvc5", mt, True, seed))
        for idx, solver, status, dt, model in run_tasks(tasks3, jobs):
            results[idx].log.append((solver + "-model", status, round(dt, 3)))
            if status == "unsat" and results[idx].status == "unknown":
                results[idx].status, results[idx].solver, results[idx].time = "unsat", solver + "(fmf)", dt
            if status == "sat" and model is not None and results[idx].model is None and results[idx].status != "unsat":
                results[idx].model = model
                results[idx].status = "sat"
                results[idx].solver = results[idx].solver or solver
    return results
