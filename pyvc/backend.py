"""SMT back ends: z3 (in process and pooled) and cvc5 (pooled), verdict merge.

An obligation is `constraints /\\ not goal`; `unsat` means discharged.
"""
import multiprocessing as mp
import os
import time
import z3

_DECL_RE = None


def to_smt2(constraints, goal):
    s = z3.Solver()
    for c in constraints:
        s.add(c)
    s.add(z3.Not(goal))
    return s.to_smt2()


def has_strings(constraints, goal):
    txt_sorts = set()

    seen = set()

    def walk(e):
        if e.get_id() in seen:
            return False
        seen.add(e.get_id())
        if z3.is_string(e) or (z3.is_expr(e) and e.sort().kind() in (z3.Z3_SEQ_SORT, z3.Z3_RE_SORT)):
            return True
        return any(walk(c) for c in e.children())
    return any(walk(c) for c in list(constraints) + [goal])


def _solve_z3(smt2, timeout_ms, want_model, seed=0):
    s = z3.Solver()
    s.set("timeout", int(timeout_ms))
    if seed:
        s.set("random_seed", int(seed) % 100000)
    s.from_string(smt2)
    t0 = time.time()
    r = s.check()
    dt = time.time() - t0
    model = None
    if r == z3.sat and want_model:
        m = s.model()
        model = {}
        for d in m.decls():
            if d.arity() == 0:
                model[d.name()] = _z3_val(m[d])
    return (str(r), dt, model)


def _z3_val(v):
    try:
        if z3.is_string_value(v):
            return ("str", v.as_string())
        if z3.is_int_value(v):
            return ("int", v.as_long())
        if z3.is_rational_value(v):
            return ("real", "%s/%s" % (v.numerator_as_long(), v.denominator_as_long()))
        if z3.is_true(v):
            return ("bool", True)
        if z3.is_false(v):
            return ("bool", False)
        if z3.is_algebraic_value(v):
            return ("real", v.approx(10).as_string())
    except Exception:
        pass
    return ("other", str(v))


def _solve_cvc5(smt2, timeout_ms, want_model, seed=0, fmf=False):
    import cvc5
    slv = cvc5.Solver()
    slv.setOption("tlimit-per", str(int(timeout_ms)))
    slv.setOption("strings-exp", "true")
    if fmf or want_model:
        slv.setOption("strings-fmf", "true")
    if want_model:
        slv.setOption("produce-models", "true")
    if seed:
        slv.setOption("seed", str(int(seed) % 100000))
    slv.setLogic("ALL")
    text = smt2
    # z3 emits (check-sat) at the end; run commands through the parser
    parser = cvc5.InputParser(slv)
    parser.setStringInput(cvc5.InputLanguage.SMT_LIB_2_6, text, "obligation")
    sm = parser.getSymbolManager()
    t0 = time.time()
    result = "unknown"
    while True:
        cmd = parser.nextCommand()
        if cmd.isNull():
            break
        out = cmd.invoke(slv, sm)
        o = str(out).strip()
        if o in ("sat", "unsat", "unknown"):
            result = o
    dt = time.time() - t0
    model = None
    if result == "sat" and want_model:
        model = {}
        try:
            for t in sm.getDeclaredTerms():
                try:
                    v = slv.getValue(t)
                    model[str(t)] = _cvc5_val(v)
                except Exception:
                    pass
        except Exception:
            pass
    return (result, dt, model)


def _cvc5_val(v):
    try:
        if v.isStringValue():
            return ("str", v.getStringValue())
        if v.isIntegerValue():
            return ("int", int(v.getIntegerValue()))
        if v.isRealValue():
            return ("real", str(v.getRealValue()))
        if v.isBooleanValue():
            return ("bool", bool(v.getBooleanValue()))
    except Exception:
        pass
    return ("other", str(v))


def _task(args):
    idx, smt2, solver, timeout_ms, want_model, seed = args
    try:
        if solver == "z3":
            r = _solve_z3(smt2, timeout_ms, want_model, seed)
        elif solver == "cvc5-fmf":
            r = _solve_cvc5(smt2, timeout_ms, want_model, seed, fmf=True)
        else:
            r = _solve_cvc5(smt2, timeout_ms, want_model, seed)
        return (idx, solver) + r
    except Exception as e:  # solver crash / parse error: reported as an error verdict, never as sat
        return (idx, solver, "error:%s" % (str(e)[:300]), 0.0, None)


def _child(task, conn):
    try:
        conn.send(_task(task))
    except Exception as e:
        try:
            conn.send((task[0], task[2], "error:%s" % e, 0.0, None))
        except Exception:
            pass
    finally:
        conn.close()


class SolverPool:
    """Persistent solver workers, forked early (while the parent is still small).  A worker that
    overruns its task's hard deadline is killed and replaced."""

    def __init__(self, n):
        self.ctx = mp.get_context("fork")
        self.n = n
        self.workers = []
        for _ in range(n):
            self.workers.append(self._spawn())

    def _spawn(self):
        pin, cout = self.ctx.Pipe(duplex=False)     # parent reads results
        cin, pout = self.ctx.Pipe(duplex=False)     # parent writes tasks
        p = self.ctx.Process(target=_worker_loop, args=(cin, cout), daemon=True)
        p.start()
        cin.close()
        cout.close()
        return {"p": p, "rx": pin, "tx": pout, "task": None, "deadline": 0, "t0": 0}

    def _kill(self, w):
        try:
            w["p"].terminate()
            w["p"].join(timeout=1)
            if w["p"].is_alive():
                w["p"].kill()
        except Exception:
            pass
        for c in (w["rx"], w["tx"]):
            try:
                c.close()
            except Exception:
                pass

    def close(self):
        for w in self.workers:
            self._kill(w)
        self.workers = []

    def run(self, tasks, grace_s=3.0, cancel_siblings=False):
        from multiprocessing.connection import wait
        queue = list(tasks)[::-1]
        decided = set()
        busy = lambda: [w for w in self.workers if w["task"] is not None]
        while queue or busy():
            for i, w in enumerate(self.workers):
                if w["task"] is None and queue:
                    t = queue.pop()
                    if t[0] in decided:
                        continue
                    try:
                        w["tx"].send(t)
                    except Exception:
                        self._kill(w)
                        w = self.workers[i] = self._spawn()
                        w["tx"].send(t)
                    w["task"], w["t0"] = t, time.time()
                    w["deadline"] = time.time() + t[3] / 1000.0 + grace_s
            bs = busy()
            if not bs:
                continue
            ready = wait([w["rx"] for w in bs], timeout=0.2)
            now = time.time()
            for i, w in enumerate(self.workers):
                if w["task"] is None:
                    continue
                t = w["task"]
                if w["rx"] in ready:
                    try:
                        res = w["rx"].recv()
                    except (EOFError, OSError):
                        res = (t[0], t[2], "error:solver process died", now - w["t0"], None)
                        self._kill(w)
                        self.workers[i] = self._spawn()
                        yield res
                        continue
                    w["task"] = None
                    if cancel_siblings and res[2] in ("sat", "unsat"):
                        decided.add(res[0])
                        for j, w2 in enumerate(self.workers):
                            if w2["task"] is not None and w2["task"][0] == res[0] and w2 is not w:
                                self._kill(w2)
                                self.workers[j] = self._spawn()
                    yield res
                elif now > w["deadline"]:
                    self._kill(w)
                    self.workers[i] = self._spawn()
                    yield (t[0], t[2], "timeout", now - w["t0"], None)


def _worker_loop(rx, tx):
    while True:
        try:
            t = rx.recv()
        except (EOFError, OSError):
            return
        try:
            tx.send(_task(t))
        except Exception as e:
            try:
                tx.send((t[0], t[2], "error:%s" % e, 0.0, None))
            except Exception:
                return


POOL = None


def start_pool(n):
    global POOL
    if POOL is None:
        POOL = SolverPool(n)
    return POOL


def stop_pool():
    global POOL
    if POOL is not None:
        POOL.close()
        POOL = None


def run_tasks(tasks, jobs, grace_s=3.0, cancel_siblings=False):
    if POOL is not None:
        yield from POOL.run(tasks, grace_s, cancel_siblings)
        return
    yield from _run_tasks_fork(tasks, jobs, grace_s, cancel_siblings)


def _run_tasks_fork(tasks, jobs, grace_s=3.0, cancel_siblings=False):
    """Run solver tasks in forked children, at most `jobs` at a time, each with a hard kill
    at its own timeout + grace.  Yields (idx, solver, status, seconds, model).
    With cancel_siblings, a sat/unsat answer for an obligation stops the other solvers still
    working on the same obligation."""
    from multiprocessing.connection import wait
    ctx = mp.get_context("fork")
    queue = list(tasks)[::-1]
    running = {}
    decided = set()
    while queue or running:
        while queue and len(running) < jobs:
            t = queue.pop()
            if t[0] in decided:
                continue
            parent, child = ctx.Pipe(duplex=False)
            p = ctx.Process(target=_child, args=(t, child), daemon=True)
            p.start()
            child.close()
            running[parent] = (p, t, time.time() + t[3] / 1000.0 + grace_s, time.time())
        ready = wait(list(running.keys()), timeout=0.25)
        now = time.time()
        for conn in list(running.keys()):
            if conn not in running:
                continue
            p, t, deadline, t0 = running[conn]
            if conn in ready:
                try:
                    res = conn.recv()
                except EOFError:
                    res = (t[0], t[2], "error:solver process died", now - t0, None)
                conn.close()
                p.join(timeout=1)
                del running[conn]
                if cancel_siblings and res[2] in ("sat", "unsat"):
                    decided.add(res[0])
                    for c2 in list(running.keys()):
                        p2, t2, _, _ = running[c2]
                        if t2[0] == res[0]:
                            p2.terminate()
                            p2.join(timeout=1)
                            if p2.is_alive():
                                p2.kill()
                            c2.close()
                            del running[c2]
                yield res
            elif now > deadline:
                p.terminate()
                p.join(timeout=1)
                if p.is_alive():
                    p.kill()
                conn.close()
                del running[conn]
                yield (t[0], t[2], "timeout", now - t0, None)


class Result:
    __slots__ = ("status", "solver", "time", "model", "log")

    def __init__(self):
        self.status = "unknown"
        self.solver = None
        self.time = 0.0
        self.model = None
        self.log = []


def solve_smt(obs, timeout_s=20, both=False, jobs=None, seed=0):
    """obs: list of dicts {smt2, strs, trivial}.  Returns list of Result.

    stage 0  trivial goals (simplifier) and string-free obligations in process with z3
    stage 1  first-choice solver with a short budget (cvc5 for strings, z3 otherwise)
    stage 2  everything still open: cvc5, cvc5 with finite-model finding for strings, z3 -- in parallel,
             full budget; `both` (thorough tier) sends every obligation through stage 2 as well and
             reports a sat/unsat disagreement as status 'disagree'
    stage 3  models for sat/unknown obligations (for replay)"""
    jobs = jobs or min(16, os.cpu_count() or 4)
    results = [Result() for _ in obs]
    pending = []
    for i, d in enumerate(obs):
        if d.get("trivial"):
            results[i].status, results[i].solver = "unsat", "simplifier"
            continue
        if not d["strs"]:
            s = z3.Solver()
            s.set("timeout", 3000)
            try:
                s.from_string(d["smt2"])
                t0 = time.time()
                r = s.check()
                dt = time.time() - t0
            except Exception:
                r, dt = z3.unknown, 0.0
            results[i].log.append(("z3-inproc", str(r), round(dt, 4)))
            if r == z3.unsat:
                results[i].status, results[i].solver, results[i].time = "unsat", "z3", dt
                if not both:
                    continue
        pending.append(i)

    def record(idx, solver, status, dt):
        results[idx].log.append((solver, status, round(dt, 3)))
        cur = results[idx].status
        if status in ("sat", "unsat"):
            if cur in ("sat", "unsat") and cur != status:
                results[idx].status = "disagree"
            elif cur not in ("disagree",):
                if cur != status:
                    results[idx].status, results[idx].solver, results[idx].time = status, solver, dt

    short = min(5, timeout_s) * 1000
    tasks = [(i, obs[i]["smt2"], "cvc5" if obs[i]["strs"] else "z3", short, False, seed)
             for i in pending if results[i].status == "unknown"]
    for idx, solver, status, dt, model in run_tasks(tasks, jobs):
        record(idx, solver, status, dt)
    open_ = [i for i in pending if results[i].status == "unknown"]
    decided = [i for i in pending if results[i].status != "unknown"]
    tasks = []
    for i in open_:
        for sv in (("cvc5", "cvc5-fmf", "z3") if obs[i]["strs"] else ("z3", "cvc5")):
            tasks.append((i, obs[i]["smt2"], sv, timeout_s * 1000, False, seed))
    for idx, solver, status, dt, model in run_tasks(tasks, jobs, cancel_siblings=True):
        record(idx, solver, status, dt)
    # still open: the string solvers are unstable from run to run on identical input (the same query is decided in seconds
    # or not at all); retry with other random seeds before giving up -- an 'unknown' is never a verdict
    for attempt in (1, 2, 3):
        still = [i for i in pending if results[i].status == "unknown"]
        if not still:
            break
        tasks = []
        for i in still:
            for sv in (("cvc5", "cvc5-fmf", "z3") if obs[i]["strs"] else ("z3", "cvc5")):
                tasks.append((i, obs[i]["smt2"], sv, min(timeout_s, 90) * 1000, False, seed + 7919 * attempt))
        for idx, solver, status, dt, model in run_tasks(tasks, jobs, cancel_siblings=True):
            record(idx, solver + "-retry%d" % attempt, status, dt)
    if both:
        # second opinion on every obligation that is already decided: the other solvers get a bounded budget; an answer
        # that contradicts the first one is a 'disagree' (checker fault), no answer in the budget is not
        cross = min(timeout_s, 20) * 1000
        tasks = []
        for i in decided + open_:
            if results[i].status not in ("sat", "unsat"):
                continue
            used = set(l[0] for l in results[i].log)
            for sv in (("cvc5", "z3") if obs[i]["strs"] else ("z3", "cvc5")):
                if sv not in used and not (sv == "z3" and "z3-inproc" in used):
                    tasks.append((i, obs[i]["smt2"], sv, cross, False, seed))
        for idx, solver, status, dt, model in run_tasks(tasks, jobs, cancel_siblings=False):
            record(idx, solver, status, dt)
    need = [i for i in pending if results[i].status in ("sat", "unknown")]
    mt = min(timeout_s, 15) * 1000
    tasks = []
    for i in need:
        tasks.append((i, obs[i]["smt2"], "z3", mt, True, seed))
        tasks.append((i, obs[i]["smt2"], "cvc5", mt, True, seed))
    for idx, solver, status, dt, model in run_tasks(tasks, jobs):
        results[idx].log.append((solver + "-model", status, round(dt, 3)))
        if status == "sat" and model is not None and results[idx].model is None and results[idx].status != "unsat":
            results[idx].model = model
            results[idx].status = "sat"
            results[idx].solver = results[idx].solver or solver
    return results


def discharge(obligations, timeout_s=20, both=False, jobs=None, seed=0, progress=None):
    """convenience wrapper over solve_smt for in-memory Obligation objects"""
    obs = []
    for ob in obligations:
        trivial = z3.is_true(z3.simplify(ob.goal))
        obs.append({"smt2": None if trivial else to_smt2(ob.constraints, ob.goal),
                    "strs": has_strings(ob.constraints, ob.goal), "trivial": trivial})
    return solve_smt(obs, timeout_s, both, jobs, seed)
