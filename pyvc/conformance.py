"""Conformance of the builtin specifications used by the encoding against the live CPython
implementation (guard 5.4 of DESIGN.md).  Each axiom added by pyvc.prims for a string builtin is
evaluated on concrete inputs with the real builtin in place of the uninterpreted function."""
import itertools
import random


def _check_str(tier, seed):
    rng = random.Random(seed + 1)
    alpha = ["/", "\\", "a", "A", ":", ".", " ", "é", "İ", "Σ", "ß", "σ"]
    cases = []
    maxlen = 4 if tier == "quick" else 5
    base = ["/", "\\", "a", "A", ":", "."]
    for n in range(0, maxlen + 1):
        for t in itertools.product(base, repeat=n):
            cases.append("".join(t))
    for _ in range(2000 if tier == "quick" else 20000):
        cases.append("".join(rng.choice(alpha) for _ in range(rng.randint(0, 10))))
    failures = []
    n = 0
    interesting = ("/", "\\", ":", ".")
    for s in cases:
        for c in ("/", "\\"):
            # rstrip / lstrip specifications
            r = s.rstrip(c)
            tl = s[len(r):]
            ok = s == r + tl and set(tl) <= {c} and not r.endswith(c) and r.rstrip(c) == r and (s.endswith(c) or r == s)
            for d in interesting:
                if d != c:
                    ok = ok and ((d in r) == (d in s))
                else:
                    ok = ok and ((d not in r) or (d in s))
                if r:
                    ok = ok and (r.startswith(d) == s.startswith(d))
            l = s.lstrip(c)
            hd = s[:len(s) - len(l)]
            ok = ok and s == hd + l and set(hd) <= {c} and not l.startswith(c) and l.lstrip(c) == l and (s.startswith(c) or l == s)
            for d in interesting:
                if l:
                    ok = ok and (l.endswith(d) == s.endswith(d))
            # strip over a constant prefix / suffix of the strip character
            ok = ok and (c + s).lstrip(c) == s.lstrip(c) and (s + c).rstrip(c) == s.rstrip(c)
            # find / rfind
            i = s.rfind(c)
            ok = ok and ((i == -1 and c not in s) or (0 <= i < len(s) and s[i] == c and c not in s[i + 1:])) and ((i == -1) == (c not in s))
            i = s.find(c)
            ok = ok and ((i == -1 and c not in s) or (0 <= i < len(s) and s[i] == c and c not in s[:i]))
            n += 1
            if not ok:
                failures.append("strip/find spec on %r with %r" % (s, c))
        for a, b in (("\\", "/"), ("/", "\\")):
            o = s.replace(a, b)
            ok = len(o) == len(s) and a not in o and (a in s or o == s) and o.replace(a, b) == o \
                and ((b in o) == (b in s or a in s)) and ((len(o) == 0) == (len(s) == 0))
            if len(s) == 1:
                ok = ok and o == (b if s == a else s)
            if s:
                ok = ok and o[0] == (b if s[0] == a else s[0]) and o[-1] == (b if s[-1] == a else s[-1])
            for d in interesting:
                if d not in (a, b):
                    ok = ok and ((d in o) == (d in s))
            k = len(s) // 2
            ok = ok and o == s[:k].replace(a, b) + s[k:].replace(a, b)
            n += 1
            if not ok:
                failures.append("replace spec on %r" % (s,))
        lo = s.lower()
        ok = lo.lower() == lo and ((len(lo) == 0) == (len(s) == 0))
        for c in ("/", "\\"):
            ok = ok and ((c in lo) == (c in s)) and (lo.startswith(c) == s.startswith(c)) and (lo.endswith(c) == s.endswith(c))
        n += 1
        if not ok:
            failures.append("lower spec on %r" % (s,))
    # lower distributes over concatenation at a separator
    for _ in range(3000 if tier == "quick" else 30000):
        x = "".join(rng.choice(alpha) for _ in range(rng.randint(0, 5)))
        y = "".join(rng.choice(alpha) for _ in range(rng.randint(0, 5)))
        for c in ("/", "\\"):
            n += 1
            if (x + c + y).lower() != x.lower() + c + y.lower() or (c + y).lower() != c + y.lower():
                failures.append("lower separator homomorphism on %r %r %r" % (x, c, y))
        if len((x + y).lower()) != len(x.lower()) + len(y.lower()) or len(x.lower()) < len(x):
            failures.append("lower length additivity on %r %r" % (x, y))
        if (x.lower() in ("/", "\\")) != (x in ("/", "\\")):
            failures.append("lower maps a non-separator to a separator: %r" % x)
    # all single code points: lower never creates or removes a separator
    for cp in range(0x110000):
        if 0xD800 <= cp <= 0xDFFF:
            continue
        ch = chr(cp)
        lo = ch.lower()
        if ch in "/\\":
            if lo != ch:
                failures.append("lower changes separator %r" % ch)
        elif "/" in lo or "\\" in lo:
            failures.append("lower creates separator from U+%04X" % cp)
        if not lo:
            failures.append("lower empties U+%04X" % cp)
    n += 0x110000
    return n, failures[:10]


CHECKS = {"str": _check_str}


def run(which, tier, seed):
    out = {"models_tested": [], "cases": 0, "failures": []}
    for w in which:
        f = CHECKS.get(w)
        if f is None:
            import importlib
            mod, fn = w.rsplit(".", 1)
            f = getattr(importlib.import_module(mod), fn)
        n, fails = f(tier, seed)
        out["models_tested"].append(w)
        out["cases"] += n
        out["failures"].extend(fails)
    return out
