"""Symbolic value layer of pyvc.

Values are immutable Python objects:

  C(py)            concrete Python constant (None, bool, int, Fraction, str, bytes, EnumMember,
                   ClassRef, FuncRef, ModuleRef, Builtin, ...)
  S(sort, term)    z3 term of sort bool | int | real | str
  E(cls, term)     symbolic member of enum class `cls` (term: Int index into cls.members)
  O(sort, term)    value of an uninterpreted sort (hashes, file handles, foreign objects)
  R(addr)          reference to a heap object
  T(items)         tuple of values (fixed length)
  U(alts)          guarded union [(guard, value)], guards mutually exclusive under the path condition

Python semantics assumed by the encoding (listed in every evidence file):
  int = mathematical integer, float = real (no rounding / NaN / inf), str = SMT-LIB string,
  `is` on str/int constants treated as ==.
"""
from fractions import Fraction
import z3


class V:
    __slots__ = ()


class C(V):
    __slots__ = ("v",)

    def __init__(self, v):
        if isinstance(v, float):
            v = Fraction(repr(v)) if v == v and abs(v) != float("inf") else v
        self.v = v

    def __repr__(self):
        return "C(%r)" % (self.v,)


class S(V):
    __slots__ = ("sort", "t")

    def __init__(self, sort, t):
        self.sort = sort
        self.t = t

    def __repr__(self):
        return "S(%s,%s)" % (self.sort, self.t)


class E(V):
    __slots__ = ("cls", "t")

    def __init__(self, cls, t):
        self.cls = cls
        self.t = t

    def __repr__(self):
        return "E(%s,%s)" % (self.cls.name, self.t)


class O(V):
    __slots__ = ("sort", "t")

    def __init__(self, sort, t):
        self.sort = sort
        self.t = t

    def __repr__(self):
        return "O(%s,%s)" % (self.sort, self.t)


class R(V):
    __slots__ = ("addr",)

    def __init__(self, addr):
        self.addr = addr

    def __repr__(self):
        return "R(%s)" % self.addr


class T(V):
    __slots__ = ("items",)

    def __init__(self, items):
        self.items = tuple(items)

    def __repr__(self):
        return "T%r" % (self.items,)


class U(V):
    __slots__ = ("alts",)

    def __init__(self, alts):
        self.alts = tuple(alts)

    def __repr__(self):
        return "U(%s)" % ", ".join("%s->%r" % (z3.simplify(g), v) for g, v in self.alts)


# ---- special constant payloads -------------------------------------------------------------

class EnumMember:
    __slots__ = ("cls", "name", "value", "index")

    def __init__(self, cls, name, value, index):
        self.cls = cls
        self.name = name
        self.value = value
        self.index = index

    def __repr__(self):
        return "%s.%s" % (self.cls.name, self.name)

    def __eq__(self, o):
        return isinstance(o, EnumMember) and o.cls is self.cls and o.name == self.name

    def __hash__(self):
        return hash((self.cls.qualname, self.name))


class ClassRef:
    """A class object: repo class (info is a ClassInfo) or builtin/external (info is a str)."""
    __slots__ = ("info",)

    def __init__(self, info):
        self.info = info

    @property
    def name(self):
        return self.info if isinstance(self.info, str) else self.info.name

    def __repr__(self):
        return "<classref %s>" % self.name

    def __eq__(self, o):
        return isinstance(o, ClassRef) and (o.info is self.info or o.info == self.info)

    def __hash__(self):
        return hash(self.name)


class FuncRef:
    __slots__ = ("module", "node", "cls", "closure", "qualname")

    def __init__(self, module, node, cls=None, closure=None):
        self.module = module
        self.node = node
        self.cls = cls
        self.closure = closure
        nm = getattr(node, "name", "<lambda>")
        self.qualname = module.name + ":" + ((cls.name + ".") if cls else "") + nm

    def __repr__(self):
        return "<func %s>" % self.qualname


class BoundMethod:
    __slots__ = ("func", "self_v")

    def __init__(self, func, self_v):
        self.func = func
        self.self_v = self_v

    def __repr__(self):
        return "<bound %s of %r>" % (self.func, self.self_v)


class ModuleRef:
    __slots__ = ("name",)

    def __init__(self, name):
        self.name = name

    def __repr__(self):
        return "<module %s>" % self.name


class Builtin:
    """A builtin / external callable identified by dotted name, optionally bound to a receiver."""
    __slots__ = ("name", "recv")

    def __init__(self, name, recv=None):
        self.name = name
        self.recv = recv

    def __repr__(self):
        return "<builtin %s>" % self.name


class SuperRef:
    __slots__ = ("cls", "self_v")

    def __init__(self, cls, self_v):
        self.cls = cls
        self.self_v = self_v


NONE = C(None)
TRUE = C(True)
FALSE = C(False)

BT = z3.BoolVal(True)
BF = z3.BoolVal(False)


def zand(*xs):
    ys = []
    for x in xs:
        if z3.is_true(x):
            continue
        if z3.is_false(x):
            return BF
        ys.append(x)
    if not ys:
        return BT
    if len(ys) == 1:
        return ys[0]
    return z3.And(*ys)


def zor(*xs):
    ys = []
    for x in xs:
        if z3.is_false(x):
            continue
        if z3.is_true(x):
            return BT
        ys.append(x)
    if not ys:
        return BF
    if len(ys) == 1:
        return ys[0]
    return z3.Or(*ys)


def znot(x):
    if z3.is_true(x):
        return BF
    if z3.is_false(x):
        return BT
    if z3.is_not(x):
        return x.arg(0)
    return z3.Not(x)


def alts(v):
    """Iterate (guard, base value) alternatives of any value."""
    if isinstance(v, U):
        return v.alts
    return ((BT, v),)


def _same(a, b):
    if a is b:
        return True
    if type(a) is not type(b):
        return False
    if isinstance(a, C):
        try:
            return type(a.v) is type(b.v) and a.v == b.v
        except Exception:
            return False
    if isinstance(a, (S, O)):
        return a.sort == b.sort and a.t.eq(b.t)
    if isinstance(a, E):
        return a.cls is b.cls and a.t.eq(b.t)
    if isinstance(a, R):
        return a.addr == b.addr
    if isinstance(a, T):
        return len(a.items) == len(b.items) and all(_same(x, y) for x, y in zip(a.items, b.items))
    return False


def mk_union(pairs):
    """Build a (flattened, de-duplicated) union from (guard, value) pairs."""
    flat = []
    for g, v in pairs:
        if z3.is_false(g):
            continue
        if isinstance(v, U):
            for g2, v2 in v.alts:
                gg = zand(g, g2)
                if not z3.is_false(gg):
                    flat.append((gg, v2))
        else:
            flat.append((g, v))
    out = []
    for g, v in flat:
        for i, (g0, v0) in enumerate(out):
            if _same(v0, v):
                out[i] = (zor(g0, g), v0)
                break
        else:
            out.append((g, v))
    if not out:
        raise EmptyUnion()
    if len(out) == 1:
        return out[0][1]
    # merge symbolic alternatives of the same sort into one ite term
    merged = []
    for g, v in out:
        for i, (g0, v0) in enumerate(merged):
            if isinstance(v, S) and isinstance(v0, S) and v.sort == v0.sort and v.sort != "str":
                merged[i] = (zor(g0, g), S(v.sort, z3.If(g, v.t, v0.t)))
                break
            if isinstance(v, O) and isinstance(v0, O) and v.sort == v0.sort:
                merged[i] = (zor(g0, g), O(v.sort, z3.If(g, v.t, v0.t)))
                break
            if isinstance(v, E) and isinstance(v0, E) and v.cls is v0.cls:
                merged[i] = (zor(g0, g), E(v.cls, z3.If(g, v.t, v0.t)))
                break
        else:
            merged.append((g, v))
    if len(merged) == 1:
        return merged[0][1]
    return U(merged)


class EmptyUnion(Exception):
    pass


def ite(cond, a, b):
    if z3.is_true(cond):
        return a
    if z3.is_false(cond):
        return b
    return mk_union([(cond, a), (znot(cond), b)])


def is_concrete(v):
    if isinstance(v, C):
        return True
    if isinstance(v, T):
        return all(is_concrete(x) for x in v.items)
    return False


def py_of(v):
    if isinstance(v, C):
        return v.v
    if isinstance(v, T):
        return tuple(py_of(x) for x in v.items)
    raise ValueError("not concrete: %r" % (v,))
