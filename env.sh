#!/bin/sh
# Builds /verif/.venv (offline): one interpreter with z3 + cvc5 + jsonschema and the
# repository's own dependencies (through a .pth pointing at /venv's site-packages).
# Idempotent; called by MANIFEST.setup_cmd and by ./check on first use.
set -e
HERE="$(cd "$(dirname "$0")" && pwd)"
VENV="$HERE/.venv"
STAMP="$VENV/.stamp-v2"
if [ -f "$STAMP" ]; then exit 0; fi
PY="$(readlink -f /venv/bin/python)"
rm -rf "$VENV"
"$PY" -m venv "$VENV"
PIP_NO_INDEX=1 "$VENV/bin/pip" install -q --no-index --find-links /opt/veriftools/wheels \
    z3-solver cvc5 jsonschema >/dev/null
SP="$("$VENV/bin/python" -c 'import sysconfig; print(sysconfig.get_paths()["purelib"])')"
echo "import site; site.addsitedir('/venv/lib/python3.12/site-packages')" > "$SP/repo_overlay.pth"
"$VENV/bin/python" - <<'EOF'
import z3, cvc5, jsonschema, sys
sys.path.insert(0, "/repo")
import cloudsync
EOF
touch "$STAMP"
