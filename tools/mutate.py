#!/usr/bin/env python3
"""Contract-strength probe: small syntactic mutations of functions that are under contract, each run (on a scratch copy of
/repo) against exactly the lemmas that were generated from that function.  A mutant that no lemma notices points at a weak
contract (or at an equivalent mutant -- the report is read by a person).  Not a registered check.

    tools/mutate.py [--per-function N] [--seed S] [--files manager,state,event] [--limit M]   -> mutation/REPORT.md
"""
import argparse
import ast
import glob
import json
import os
import random
import re
import shutil
import subprocess
import sys
import tempfile
import time

HERE = os.path.dirname(os.path.dirname(os.path.abspath(__file__)))
REPO = "/repo"
FILES = {"manager": "cloudsync/sync/manager.py", "state": "cloudsync/sync/state.py", "event": "cloudsync/event.py",
         "runnable": "cloudsync/runnable.py", "smartsync": "cloudsync/smartsync.py", "sqlite": "cloudsync/sync/sqlite_storage.py",
         "cs": "cloudsync/cs.py", "provider": "cloudsync/provider.py"}


LEMMA_SIZE = {}


def lemma_map():
    """qualname -> {(prop, lemma)} from the committed evidence files (functions_by_lemma)"""
    m = {}
    for f in glob.glob(os.path.join(HERE, "evidence", "C*.json")):
        d = json.load(open(f))
        for lemma, fns in d["coverage"].get("functions_by_lemma", {}).items():
            LEMMA_SIZE[lemma] = len(fns)
            for q in fns:
                m.setdefault(q, set()).add((d["property_id"], lemma))
    return m


def functions(path, modname):
    src = open(path).read()
    tree = ast.parse(src)
    out = []
    for n in tree.body:
        if isinstance(n, ast.ClassDef):
            for k in n.body:
                if isinstance(k, ast.FunctionDef):
                    out.append(("%s:%s.%s" % (modname, n.name, k.name), k))
        elif isinstance(n, ast.FunctionDef):
            out.append(("%s:%s" % (modname, n.name), n))
    return src, out


def mutants_of(src_lines, node, rng, k):
    lo, hi = node.lineno, node.end_lineno
    cands = []
    for i in range(lo, hi):          # 0-based index i <-> line i+1
        line = src_lines[i]
        st = line.strip()
        if not st or st.startswith("#") or st.startswith("log.") or st.startswith('"""') or st.startswith("assert ") or "log." in st and st.startswith("log"):
            continue
        m = re.match(r"^(\s*)(if|elif) (.*):\s*(#.*)?$", line)
        if m and not m.group(3).startswith("not ("):
            cands.append((i, "%s%s not (%s):" % (m.group(1), m.group(2), m.group(3)), "negate condition"))
        if re.search(r"\bchanged\b", st) and re.search(r"\bsynced\b", st) is None and "def " not in st and not st.startswith(("if", "elif")):
            cands.append((i, re.sub(r"\bchanged\b", "synced", line, count=1), "changed -> synced"))
        if re.search(r"\bsynced\b", st) and re.search(r"\bchanged\b", st) is None and "def " not in st and not st.startswith(("if", "elif")):
            cands.append((i, re.sub(r"\bsynced\b", "changed", line, count=1), "synced -> changed"))
        if " == " in st and not st.startswith(("if", "elif", "assert")):
            cands.append((i, line.replace(" == ", " != ", 1), "== -> !="))
        if re.match(r"^\s*(self\.|sync\[|ent\[|[a-z_]+\[[a-z_]+\]\.)[A-Za-z_\.\[\]]+(\(.*\)| = .*)$", line) and "(" in st and st.endswith(")") and " = " not in st:
            cands.append((i, re.match(r"^(\s*)", line).group(1) + "pass", "drop call"))
        if re.match(r"^\s*[a-z_\[\]\.]+ = .*$", line) and "[" in st.split("=")[0]:
            cands.append((i, re.match(r"^(\s*)", line).group(1) + "pass", "drop assignment"))
        if re.match(r"^\s*return (FINISHED|PUNT)\s*$", line):
            cands.append((i, line.replace("FINISHED", "@@").replace("PUNT", "FINISHED").replace("@@", "PUNT"), "FINISHED <-> PUNT"))
    rng.shuffle(cands)
    return cands[:k]


def main():
    ap = argparse.ArgumentParser()
    ap.add_argument("--per-function", type=int, default=2)
    ap.add_argument("--seed", type=int, default=1)
    ap.add_argument("--files", default="manager,state,event")
    ap.add_argument("--limit", type=int, default=60)
    ap.add_argument("--jobs", type=int, default=6)
    a = ap.parse_args()
    rng = random.Random(a.seed)
    lm = lemma_map()
    plan = []
    for key in a.files.split(","):
        rel = FILES[key]
        modname = rel[:-3].replace("/", ".")
        src, fns = functions(os.path.join(REPO, rel), modname)
        lines = src.split("\n")
        for qn, node in fns:
            if qn not in lm:
                continue
            for (i, new, what) in mutants_of(lines, node, rng, a.per_function):
                plan.append((rel, qn, i, new, what))
    rng.shuffle(plan)
    plan = plan[:a.limit]
    os.makedirs(os.path.join(HERE, "mutation"), exist_ok=True)
    rows = []
    for n, (rel, qn, i, new, what) in enumerate(plan):
        users = sorted(lm[qn])
        byprop = {}
        for p, l in users:
            byprop.setdefault(p, set()).add(l)
        prop = max(byprop, key=lambda p: len(byprop[p]))       # the property whose lemma set covers the function best
        # the most specific lemmas first (fewest functions inlined), at most three: a helper used everywhere would
        # otherwise re-run the whole property
        lemmas = sorted(byprop[prop], key=lambda l: (LEMMA_SIZE.get(l, 999), l))[:3]
        tmp = tempfile.mkdtemp(prefix="mut.")
        try:
            subprocess.run(["rsync", "-a", "--exclude", ".git", "--exclude", "__pycache__", REPO + "/", tmp + "/"], check=True)
            p = os.path.join(tmp, rel)
            lines = open(p).read().split("\n")
            old = lines[i]
            lines[i] = new
            open(p, "w").write("\n".join(lines))
            try:
                ast.parse("\n".join(lines))
            except SyntaxError:
                continue
            t0 = time.time()
            env = dict(os.environ, VERIF_REPO=tmp, VERIF_GEN_LIMIT="300")
            r = subprocess.run(["./check", prop, "--no-evidence", "--jobs", str(a.jobs), "--only", ",".join(lemmas)], cwd=HERE, env=env,
                               capture_output=True, text=True, timeout=1500)
            out = r.stdout + r.stderr
            first = ""
            for l in out.splitlines():
                if l.startswith("VIOLATION") or l.startswith("CHECKER-ERROR"):
                    first = l[:200]
                    break
            rows.append({"file": rel, "function": qn, "line": i + 1, "mutation": what, "old": old.strip(), "new": new.strip(),
                         "property": prop, "lemmas": lemmas, "exit": r.returncode, "first": first, "wall": round(time.time() - t0, 1)})
            print("%3d/%d exit=%d %-18s %s:%d  %s" % (n + 1, len(plan), r.returncode, what, qn.split(":")[1], i + 1, first[:90]), flush=True)
        finally:
            shutil.rmtree(tmp, ignore_errors=True)
        json.dump(rows, open(os.path.join(HERE, "mutation", "results.json"), "w"), indent=1)
    det = sum(1 for r in rows if r["exit"] != 0)
    with open(os.path.join(HERE, "mutation", "REPORT.md"), "w") as f:
        f.write("# Contract-strength probe (tools/mutate.py)\n\n%d mutants of functions under contract, %d noticed by a lemma generated from the mutated function, %d not.\n\n"
                % (len(rows), det, len(rows) - det))
        f.write("| function | line | mutation | old -> new | property | exit | first report |\n|---|---|---|---|---|---|---|\n")
        for r in rows:
            f.write("| %s | %d | %s | `%s` -> `%s` | %s | %d | %s |\n" % (r["function"].split(":")[1], r["line"], r["mutation"], r["old"].replace("|", "/")[:70],
                                                                   r["new"].replace("|", "/")[:70], r["property"], r["exit"], r["first"].replace("|", "/")[:120]))
    print("noticed %d of %d" % (det, len(rows)))


if __name__ == "__main__":
    main()
