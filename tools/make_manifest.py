#!/usr/bin/env python3
"""Regenerates /verif/MANIFEST.json from the per-property texts below (kept next to the registry so the
claims and the registered checks cannot drift apart).  Run: python3 tools/make_manifest.py"""
import json
import os
import sys

HERE = os.path.dirname(os.path.dirname(os.path.abspath(__file__)))
sys.path.insert(0, HERE)
from contracts import registry  # noqa: E402

TECH = "contract-based deductive verification: VCs generated from the real Python source (pyvc) + SMT (z3, cvc5)"
NOTE_BASE = ("Trusted: pyvc (VC generator), z3/cvc5 'unsat' answers, int = mathematical / float = real, logging effect-free, "
             "single thread inside a verified function, partial correctness. ")

CLAIMS = {
    "C02": ("proof", "Lemma-level proof. Function-level contracts of the sync manager proved for all entry states and all provider "
            "outcomes: new content is never uploaded over a deleted peer (handle_hash_diff); a propagated deletion is one delete of "
            "the entry's own peer on the other side, never issued while another live entry at that path is a pending creation "
            "(delete_synced); embrace_change only propagates a deletion for a trashed source or an entry moved out of the root and "
            "never lets a delete win over a pending creation; a corrupt copy is frozen, not copied (handle_corrupt); identical "
            "content is merged without the resolver and content is compared with the right hash function (handle_split_conflict); "
            "re-reading a side flags unseen content changes (unconditionally_get_latest). The step from these lemmas to 'every "
            "user-written version survives at quiescence for every history' is NOT proved.",
            "Callees are replaced by contracts (SyncState index maintenance, lookups, get_latest, split, provider API as an arbitrary "
            "implementation); entries satisfy the assumed representation invariant 'never both sides flagged with neither side having an oid'."),
    "C03": ("proof", "Lemma-level proof. Writes of the mirroring functions go only to the other side and target the entry's own peer "
            "(upload_synced, delete_synced, embrace_change dispatch); after a successful upload both sides are recorded as synced "
            "(sync_hash / sync_path), which is what prevents the echo; children of a renamed folder keep their relative position "
            "(_update_kids); creating a peer is one create at the translated path, an object already there is adopted only if it holds "
            "the same content, both sides recorded as synced with the created id (_create_synced, create_synced fault table); a rename "
            "is one rename of the entry's own peer to the translated path, recorded on both sides, and the only other write is the "
            "removal of a fully synced entry in the way (handle_rename); a new folder is one mkdirs of the translated path "
            "(unsafe_mkdir_synced, get_folder_file_conflict). Tree equality at quiescence for all one-sided histories is NOT proved.",
            "Same contracts and assumptions as C02; handle_cloud_file_not_found_error, rename_to_fix_conflict and resolve_conflict are arbitrary callees in these lemmas."),
    "C04": ("proof", "Lemma-level proof. Deletion propagation (one delete of the peer, entry tombstoned and discarded, never while a "
            "pending creation exists at the path) and child-path maintenance on folder rename are proved as function contracts. "
            "Exact merge of arbitrary non-conflicting histories is NOT proved.",
            "Same contracts and assumptions as C02; the non-empty-folder wait (_handle_dir_delete_not_empty) and handle_rename / unsafe_mkdir_synced have their own lemmas."),
    "C05": ("proof", "Lemma-level proof of the conflict shortcut: in handle_split_conflict the deferred side's bytes are hashed with the "
            "other side's hash function and compared with its recorded hash; equal content is merged silently (no resolver call, no "
            "provider write, duplicate entry discarded); the resolver path is taken at most once and only for different content; "
            "the resolver wrapper (__safe_call_resolver) returns exactly the table of the resolver's answer kinds (keep one, keep both, "
            "merged handle, pending, exception) and sync() dispatches an entry to exactly one handler; applying a one-sided answer: the "
            "other side is the loser, renamed aside with keep (never overwritten), overwritten by exactly one upload to its own object "
            "without keep, and with no usable answer the local version is renamed aside (resolve_conflict, 4 resolver cases); the "
            "conflict rename only ever renames the one object found at the path and returns that rename's id and path "
            "(conflict_rename, while loop by arbitrary-iteration abstraction). The merged-data answer is not under contract.",
            "resolve_conflict and download_changed are stubbed (arbitrary outcomes); the user's resolver is an arbitrary callable."),
    "C06": ("proof", "Lemma-level proof. In one event-intake step the cursor is persisted at most once, as the last effect, under the "
            "cursor tag, after every event of the batch was processed; a stopped manager processes no further event; each processed "
            "event is one state update followed by one commit under the state lock; walk events that change nothing are ignored; the "
            "SQLite back end returns exactly the stored bytes; the stored cursor is read once, under the tag of this side's root, and "
            "a full walk is needed exactly when the cursor or the completed-walk record is missing (_validate_root); the first step "
            "adopts and persists the provider's position or hands the stored one to the provider, and a rejected cursor without a "
            "walk record requests a walk (_do_first_init); the walk record is written after the walk, as the last effect, and never "
            "after a stop that left objects unwalked (_do_walk_if_needed); a stop with unprocessed events does not move the stored "
            "cursor, which is persisted exactly when the provider's position moved; every step reconnects first and takes events in "
            "exactly when the root is validated; named data (cursor, walk record) is written under its own tag, in place when a row exists; loading the state from storage rebuilds the indexes and the pending set by the running engine's own rules "
            "(found D11, fixed). 'Continues as if never stopped' over all histories is NOT proved.",
            "provider.events(), storage_update_data and state.update are contracts; sqlite3 is the relational model pyvc/sqlmodel.py."),
    "C07": ("proof", "Lemma-level proof of the effect ordering that makes every crash point recoverable: a sync step ends with exactly one "
            "storage commit as its last effect (none on temporary-error back-off, at most one otherwise); an event is applied and "
            "committed in one locked step; the cursor is written after the events it covers; equal content is recognised rather "
            "than duplicated (split conflict, and _create_synced adopts an object in the way only for equal content hashed with the "
            "right function); a commit hands every dirty entry to the storage writer and forgets the dirty set only afterwards (a "
            "failed write forgets nothing); the storage writer's decision table (create / update in place / delete trash / nothing) "
            "writes the entry's serialisation at that moment. Convergence after an arbitrary crash instant is NOT proved.",
            "pre_sync / sync are stubbed in the step lemma; crash semantics of the storage back end are assumed (SQLite autocommit)."),
    "C08": ("proof", "Lemma-level proof of the dirty discipline on the real bodies of SideState.__setattr__, SyncState.updated, "
            "_change_oid: after assigning an oid or a change flag every entry whose persisted fields changed -- including an entry "
            "ousted from the oid -- is in the dirty set, and a sync step commits. The entry codec (serialize / deserialize through a "
            "structure-preserving msgpack model) round-trips every persisted field; the commit loop writes every dirty entry and clears the set only on success; the "
            "writer's decision table (create / update / delete / nothing) stores the serialisation of the entry as it is then; "
            "loading one stored row rebuilds the entry, indexes it under its ids and paths only, and makes it pending exactly "
            "when a side with an id is flagged (found D11: the loader indexed None ids and revived id-less flags; fixed). "
            "One known finding (D6) on pending-set exactness.",
            "Indexes are open maps (touched bindings exact, rest arbitrary); entries found through an index are assumed to satisfy the index invariant."),
    "C09": ("proof", "Proof (sequential): create / update / delete / read of SqliteStorage against the abstract map (tag, id) -> bytes, "
            "stated over the whole table through a frame row: fresh id for every tag, exact bytes, update of a missing or foreign-tag "
            "row is an error, delete idempotent and tag-isolated, read returns the bytes themselves. The SQL texts are read from the "
            "real source and interpreted by a relational model. Bounded stand-in (labelled bounded): both back ends incl. MockStorage "
            "against a dict model, read_all, close/reopen, threaded creates. Durability and concurrency are otherwise assumed.",
            "sqlite3 = relational model pyvc/sqlmodel.py (execute never raises); MockStorage.read on a missing row is a known finding."),
    "C10": ("proof", "Lemma-level proof. notify_from_exception maps every class of the exception lattice to exactly the matching "
            "notification kind; a sync step lets a fault of any class escape only as a back-off request and defers the entry by one; "
            "the service loop survives every exception of the work function and waits min(max, max(b*mult, min)); pre_sync re-reads "
            "both sides even while in back-off; punting defers by a bounded amount; the download cache file is named after the path and "
            "the current content hash, so a download cached before a fault is never re-used for newer content. Convergence after the "
            "faults stop is NOT proved.",
            "Provider API = arbitrary implementation raising any cloud exception; EventManager.do's fault classification (temporary / disconnected / rejected cursor -> reset + walk / token) is under contract with _do_unsafe as an arbitrary callee."),
    "C11": ("proof", "Proof for the core writers on their real bodies: assigning an oid keeps 'oid slot -> entry' and the pending set exact "
            "for the entry, never loses a pending change of an ousted entry, and marks every changed entry dirty; setting a change "
            "flag keeps the pending set exact (one known finding, D6, isolated as its own obligation); a path change records the path "
            "and the application's priority; SyncState.finished is proved against the contract the manager lemmas use for it. "
            "Composite operations (update, split) are covered by these writers plus the frame argument, which is not machine-checked.",
            "Indexes as open maps; index invariant assumed for entries found through an index; termination not proved (D5/D9 recursion observations in DESIGN.md)."),
    "C12": ("proof", "Proof of the path side (unbounded strings, all provider conventions and mixed pairs): translate decides 'inside the "
            "root' with the source provider's rules, yields nothing outside (incl. prefix siblings, lemma prefix_sibling_not_inside) "
            "and joins inside the destination root; lemma-level proof of the engine side: a path the translation declines is left "
            "alone, an entry moved out of the root is deleted on the other side only if it had been synced; the 'both sides moved it' "
            "test that splits an entry instead of mirroring (path_conflict) is stated independently of its body, folders counting "
            "like files; an irrelevant entry is revived only when the provider reports a path the translation accepts; un-request "
            "touches the local provider only. That ids handled by the engine denote objects inside the roots is NOT proved.",
            "normalize_path is an opaque deterministic function; nps replaced by its proved contract."),
    "C13": ("proof", "Proof for strings of unbounded length and all 12 provider path conventions (quick tier: 4 representative ones): "
            "normalize_path_separators contract, split/dirname/basename, join totality, joined-is-inside with the same relative part, "
            "prefix sibling not inside, replace_path moves exactly the relative part and raises ValueError iff not a subpath, "
            "paths_match is an equivalence that agrees with normalisation, a target that is the folder itself (up to separators, and up to "
            "letter case on a case-insensitive provider) is inside it with the empty relative part and not strictly inside it, translate "
            "uses the source side's conventions; every "
            "subscript carries a no-exception obligation (found D4 and D8, both fixed). Counterexamples are replayed on the real code. "
            "Bounded supplement, reported separately and not counted as proved: the body of normalize_path (idempotence, display form "
            "vs plain form, equality with the normal form) and the equivalence form of split-then-join are checked exhaustively for "
            "every string of <= 5 characters over a 9-character alphabet plus sequences of up to 6 (thorough: 7) tokens with doubled "
            "separators, for 4 (thorough: all 12) path conventions (contracts/bounded_paths.py).",
            "String builtins follow specifications (strip/find/replace/lower as functions with axioms) conformance-tested against CPython each run; normalize_path's own body (re.split + join over a list of unknown length) is not proved, only bounded."),
    "C14": ("proof", "Lemma-level proof. Events without an id are ignored (except a folder deletion matched by path); a walk event that "
            "changes nothing is ignored; pre_sync always re-reads both sides before an entry is acted on; re-reading records the "
            "provider's truth, never changes the id, flags unseen changes and tombstones vanished objects; applying an event (no "
            "prior id) updates the entry already known under that id in place -- no second entry -- or indexes a new one, records id, "
            "path, hash, existence, flags the side changed and pending, and leaves the other side and all last-synced markers "
            "untouched (SyncState.update + update_entry, 24 exhaustive cases); an ordinary event with an id is always applied, a walk "
            "event is dropped exactly when the object is known with the same hash and path; a rename event with a prior id re-uses "
            "the prior entry (no second entry); queued events are taken in first; get_latest re-reads a side exactly when forced or "
            "stale. Independence of the final trees from event order is NOT proved.",
            "In the update lemma the index writers _change_oid/_change_path are their contracts (bodies proved in state_index.py); the prior_oid (rename) branch of update() is not under contract."),
    "C15": ("proof", "Proof of the lock discipline as a permission contract checked over the whole repository on every run: every public "
            "entry point either establishes state.lock before any write of sync state or is listed as a known finding (6 public API "
            "methods write state without the lock); event application is proved to update and commit while holding the lock and to "
            "release it; choosing the next entry and syncing it are proved to be one critical section under the lock, released even "
            "when the sync raises (SyncManager.do). The second sentence (threaded executions converge) is NOT claimed.",
            "Call resolution by method name (over-approximation); RLock semantics assumed; cursor bookkeeping not counted as shared state."),
    "C16": ("exploration", "One deductive lemma (Provider.connect: a different identity is refused with CloudTokenError, the provider is "
            "left disconnected with its identity unchanged; proved for every identity the implementation may report); otherwise a "
            "bounded stand-in (no contract within reach of the verifier expresses 'behaves like a reference tree for "
            "any call sequence' for the dict-of-everything MockFS): operation sequences on four mock flavours and the filesystem "
            "provider against a reference tree and mutual consistency of info/listing/exists/download, documented error classes, id "
            "stability, hash law for ten size classes (found D3, fixed), identity check on connect, event stream of the mock (every id that "
            "disappears or appears is announced).",
            "Exhaustive only up to the stated sequence length; one known finding (rename of a folder into itself on the mock)."),
    "C17": ("proof", "Proof of the function-level scheduling laws: change times strictly increase whatever the clock returns "
            "(mark_changed); punting raises priority by one and defers each set change flag by exactly default_sleep/10 only when the "
            "priority becomes positive; a path change assigns the application's priority for the new path; SyncState.change hands out only "
            "a member of the pending set that is eligible (negative priority, or a change flag at least `age` old) and nothing eligible "
            "sorts strictly before it by (priority, newest change time); it does not come back empty while an eligible entry exists; "
            "one manager step asks the scheduler once with the manager's aging and syncs exactly the entry handed out, sleeps for the "
            "aging time when nothing is eligible (SyncManager.do).",
            "time.time() = arbitrary positive real; prioritize = arbitrary function; sorted() = contract (ordered permutation, prefix facts)."),
    "C18": ("proof", "Proof. Back-off formula by induction over the failure count (base and step over reals); every iteration of "
            "Runnable.run from an arbitrary loop state: no exception of the work function escapes, the wait is the back-off law "
            "(reset after a productive success, kept after a no-op), cleanup runs exactly once iff the stop was final, the service "
            "reports stopped; a service not asked to stop calls its work function; stop() raises the flags, wakes the loop and joins the "
            "service thread exactly when there is one and the caller asked to wait (sequential core of stop); notification kinds. Stop/start races between threads are NOT claimed.",
            "The loop is verified by arbitrary-iteration abstraction with an inferred frame; the work function is an arbitrary callee with five outcome kinds."),
    "C19": ("exploration", "Bounded stand-in for the property as stated: the coherence invariant (tree shape, id map = reachable nodes with "
            "ids, path<->id inverse) is an inductive predicate over a recursive structure that pyvc's first-order obligations cannot "
            "express; all sequences of <= 2 (thorough: 3) cache calls plus seeded random sequences, both case modes, invariant checked "
            "after every call. One known finding (id of an ancestor/descendant re-used). In addition twelve deductive lemmas on the "
            "non-recursive id-map maintenance, over an id map of arbitrary content (contracts/cache_laws.py; discharged obligations, "
            "reported separately from the bounded part and not raising the level): _set_oid evicts the previous holder of an id "
            "first and then binds an id-less node in place / replaces a node that carries another id; _delete of a file node unlinks "
            "it from its parent, clears its parent link and forgets its id while no other binding changes; _delete of the root or of "
            "nothing is a no-op; id-keyed lookups read the id map and change nothing; _update removes a node whose type changed (exactly "
            "that node, before the replacement is made), makes a missing node without removing anything, keeps a node of the requested "
            "type and assigns the id exactly when one was passed; set_oid labels the node found at the path through _set_oid or makes one "
            "node of the given type there; get_path is the full path of exactly the node the id map binds, get_oid the id of the node the "
            "path lookup resolves, neither changes a binding; _rename refuses the root before touching anything and otherwise detaches the "
            "node first, deletes nothing but the new path (always, when there is nothing to move) and inserts the same node there last; set_metadata replaces the "
            "metadata of exactly the node resolved; create / mkdir make one node of the right type with the id given and insert it at the "
            "provider-normalised path; add_child files a child under its own name and changes no other slot.",
            "Exhaustive only up to the stated sequence length. Lemmas: delete / __make_node / Node.full_path (and, in the _update lemma, "
            "_get_node / _delete / _set_oid / set_metadata; in the _rename lemma _get_node / _delete / delete / __insert_node / _check) "
            "are arbitrary callees; "
            "assumed representation facts: a node found under key k carries id k, weak parent references are alive; the recursive "
            "operations (delete of a folder, rename, __insert_node, _walk of a folder) are not under contract."),
    "C20": ("proof", "Lemma-level proof. The smart pre-sync gate finishes an unrequested remote-only file without any transfer and lets "
            "requested entries, local files and folders through; un-request makes no call on the remote provider and its only write "
            "is a local delete of the object at the entry's local path, leaving the remote side unsynced rather than deleted; a "
            "request adds to the request set and re-arms a vanished local copy; the gate reports what the base pre-sync reported for "
            "entries it lets through and notifies once for an entry it finishes. 'Never downloaded under every interleaving' is NOT proved.",
            "Base pre_sync is stubbed; request/exclude sets are abstract sets."),
}

NA = {
    "C01": "liveness / whole-history convergence: no precondition/postcondition on a function of this code base expresses 'eventually quiet "
           "and both trees equal' for every history and schedule; the function-level safety facts it rests on are claimed under C02-C04, C11, C17 (DESIGN.md section 7, C01)",
}


def main():
    props = [json.loads(l) for l in open(os.path.join(HERE, "properties.jsonl"))]
    checks = []
    for p in props:
        pid = p["id"]
        if pid not in registry.PROPS or pid not in CLAIMS:
            continue
        cat, text, note = CLAIMS[pid]
        if pid in ("C02", "C03", "C04", "C05", "C06", "C07", "C14", "C10"):
            text += (" Since the third seeding round the check also runs every lemma whose function this property's statement depends on "
                     "(all mirroring / dispatch lemmas for C02-C04, conflict lemmas for C05/C02, event-intake lemmas for C06/C07/C14, "
                     "re-read lemmas for C14/C02/C10); LEMMAS.md lists them per property.")
        checks.append({
            "property_id": pid,
            "quick_cmd": "./check %s --tier quick" % pid,
            "thorough_cmd": "./check %s --tier thorough" % pid,
            "evidence_file": "evidence/%s.json" % pid,
            "replay_cmd_template": "./check %s --replay {path}" % pid,
            "engine": "pyvc",
            "level_claimed": {"category": cat, "text": text, "design_ref": "DESIGN.md section 7, %s; section 12 (what was built)" % pid},
            "level_note": NOTE_BASE + note,
            "technique": TECH if cat == "proof" else "bounded stand-in (exhaustive small scope + seeded random) of the same contract, run on the real code; plus contract-based deductive lemmas (pyvc VCs + SMT) on the non-recursive helper functions, reported separately",
        })
    na = [{"property_id": k, "reason": v} for k, v in NA.items()]
    for p in props:
        if p["id"] not in [c["property_id"] for c in checks] and p["id"] not in NA:
            na.append({"property_id": p["id"], "reason": "no check registered yet in this round"})
    m = {
        "version": 1,
        "setup_cmd": "./env.sh",
        "hooks": {"guard": "CLOUDSYNC_VERIF",
                  "enable": "no source hooks are needed: contracts are sidecar files under /verif/contracts interpreted over the real source; nothing in /repo is guarded",
                  "baseline_off_cmd": "cd /repo && /venv/bin/python -m pytest -ra -q -p no:cacheprovider --timeout=900 --continue-on-collection-errors",
                  "source_commits": [], "add_only": True},
        "engines": [{"name": "pyvc", "path": "pyvc/", "serves_properties": [c["property_id"] for c in checks],
                     "kind_free_text": "verification-condition generator over the real Python source (ast -> symbolic execution with contracts for callees, "
                                       "inferred frames for abstract loops) + SMT back ends (z3 5.1, cvc5 1.4) + replay of counterexamples on the real code; "
                                       "bounded stand-ins and a repository-wide static permission check where a function is out of reach"}],
        "checks": checks,
        "not_applicable": na,
        "notes": "Fix commits in /repo: a6aeb33 (is_subpath IndexError), 4dc1302 (debug_sig TypeError), b97a12d (SqliteStorage.read), "
                 "05f72d9 (join IndexError on win_paths), 66940cf (FileSystemProvider.hash_data), 8289cd3 (mock provider id of a re-created path), "
                 "15825eb (state loader indexed None ids / revived id-less flags). Known findings: known_findings.json. "
                 "Seeded changes used to test the checks: seeded/.",
    }
    with open(os.path.join(HERE, "MANIFEST.json"), "w") as f:
        json.dump(m, f, indent=1)
    print("wrote MANIFEST.json with %d checks, %d not applicable" % (len(checks), len(na)))


if __name__ == "__main__":
    main()
