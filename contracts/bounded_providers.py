"""C16 bounded stand-in: the offline-runnable providers (MockProvider in four flavours, FileSystemProvider on a real
temporary directory) against the provider contract the engine relies on.

Checked after every call of short operation sequences: info / listing / exists / download agree with each other and
with a reference tree kept by the harness, the documented error classes, id stability across rename (id-style) or
id == normalised path (path-style), the hash law hash_data(bytes) == info.hash == hash_oid for every size class,
and the identity check on connect.  Not a proof: exhaustive only up to the stated sequence length."""
import io
import itertools
import os
import random
import shutil
import sys
import tempfile

SIZES = (0, 1, 700, 1024, 1025, 2047, 2048, 2049, 5000, 70000)
NAMES = ["a", "b", "A", "é.txt"]


def _mk_providers(repo, tmp, with_fs=True):
    from cloudsync.providers.mock import MockProvider
    provs = []
    for oip in (False, True):
        for cs in (True, False):
            p = MockProvider(oip, cs)
            p.connect(p._test_creds)
            provs.append(("mock(oid_is_path=%s,case_sensitive=%s)" % (oip, cs), p, "/"))
    if not with_fs:
        return provs
    try:
        from cloudsync.providers.filesystem import FileSystemProvider
        fp = FileSystemProvider()
        fp.namespace_id = tmp
        fp.connect({})
        provs.append(("filesystem", fp, "/"))
    except Exception as e:          # the filesystem provider needs watchdog etc.; absence is reported, not hidden
        provs.append(("filesystem-unavailable:%s" % type(e).__name__, None, None))
    return provs


def _hash_law(name, p, rng, failures):
    n = 0
    seen = {}
    for size in SIZES:
        data = bytes(rng.getrandbits(8) for _ in range(size))
        path = "/h%d" % size
        try:
            info = p.create(path, io.BytesIO(data))
            hd = p.hash_data(io.BytesIO(data))
            ho = p.hash_oid(info.oid)
            hi = p.info_oid(info.oid).hash
            n += 1
            if not (hd == info.hash == ho == hi):
                failures.append({"what": "%s: hash law broken for %d bytes: hash_data=%r create.hash=%r hash_oid=%r info.hash=%r" % (name, size, hd, info.hash, ho, hi),
                                 "witness": {"provider": name, "size": size, "law": "hash"}, "replay_data": {"provider": name, "size": size}})
            if data in seen.values():
                continue
            for s2, h2 in list(seen.items()):
                if h2 == info.hash and size != s2:
                    failures.append({"what": "%s: different bytes (%d vs %d bytes) hash equal" % (name, size, s2),
                                     "witness": {"provider": name, "size": size, "law": "hash-distinct"}, "replay_data": None})
            seen[size] = info.hash
            # a one-byte change in the middle of a large file must change the hash
            if size > 2048:
                d2 = bytearray(data)
                d2[size // 2] ^= 0xFF
                if p.hash_data(io.BytesIO(bytes(d2))) == info.hash:
                    failures.append({"what": "%s: a change in the middle of a %d byte file does not change hash_data" % (name, size),
                                     "witness": {"provider": name, "size": size, "law": "hash-middle"}, "replay_data": None})
        except Exception as e:
            failures.append({"what": "%s: hash law probe raised %s: %s" % (name, type(e).__name__, str(e)[:80]),
                             "witness": {"provider": name, "size": size, "law": "hash-exception"}, "replay_data": None})
    return n


def _ops_universe():
    P1 = ["/" + n for n in NAMES[:3]]
    P2 = ["/a/" + n for n in NAMES[:2]]
    ops = []
    for p in P1 + P2:
        ops.append(("create", p, b"x"))
        ops.append(("mkdir", p))
        ops.append(("delete", p))
        ops.append(("upload", p, b"yy" * 600))
    for a, b in itertools.permutations(P1[:2] + P2[:1], 2):
        ops.append(("rename", a, b))
    return ops


def _tree(p, root="/"):
    """walk the provider by listdir from the root: {normalised path: (otype, oid, hash)}"""
    out = {}
    rinfo = p.info_path(root)
    stack = [(rinfo.oid, root)]
    while stack:
        oid, path = stack.pop()
        for ent in p.listdir(oid):
            ep = ent.path or p.join(path, ent.name)
            out[p.normalize_path(ep)] = (ent.otype.value, ent.oid, ent.hash, ep)
            if ent.otype.value == "dir":
                stack.append((ent.oid, ep))
    return out


def _check_consistency(name, p, model, last_op):
    tree = _tree(p)
    want = {p.normalize_path(k): v for k, v in model.items()}
    if set(tree) != set(want):
        return "listing %s differs from the reference tree %s" % (sorted(tree), sorted(want))
    for np_, (otype, oid, h, ep) in tree.items():
        wt, wdata = want[np_]
        if otype != wt:
            return "type of %s is %s, reference says %s" % (ep, otype, wt)
        ip = p.info_path(ep)
        io_ = p.info_oid(oid)
        if ip is None or io_ is None or ip.oid != oid or not p.paths_match(io_.path, ep):
            return "info_path / info_oid disagree for %s" % ep
        if not p.exists_path(ep) or not p.exists_oid(oid):
            return "exists_path / exists_oid false for listed object %s" % ep
        if p.oid_is_path and name != "filesystem" and p.normalize_path(oid) != np_:
            return "path-style provider: oid %r is not the normalised path %r" % (oid, np_)
        if p.oid_is_path and name == "filesystem" and not p.normalize_path(oid.replace(os.sep, "/")).endswith(np_):
            return "filesystem provider: oid %r does not end with the normalised path %r" % (oid, np_)
        if otype == "file":
            buf = io.BytesIO()
            p.download(oid, buf)
            if buf.getvalue() != wdata:
                return "download of %s returned %r, reference has %r" % (ep, buf.getvalue()[:20], wdata[:20])
            if p.hash_data(io.BytesIO(wdata)) != ip.hash:
                return "hash of %s differs from hash_data of its bytes" % ep
    return None


def _apply(p, model, op, exc_types):
    """apply op to provider and to the reference tree; returns message on disagreement"""
    E = exc_types
    k = op[0]
    path = op[1]

    def mkey(x):
        for k_ in model:
            if p.paths_match(k_, x):
                return k_
        return None

    def parent_ok(x):
        par = p.dirname(x)
        if par == "/":
            return "ok"
        pk = mkey(par)
        if pk is None:
            return "missing"
        return "ok" if model[pk][0] == "dir" else "file"
    expect = None
    key = mkey(path)
    if k == "create":
        if key is not None:
            expect = E["exists"]
        elif parent_ok(path) == "missing":
            expect = E["notfound"]
        elif parent_ok(path) == "file":
            expect = E["exists"]
    elif k == "mkdir":
        if key is not None and model[key][0] == "file":
            expect = E["exists"]
        elif key is None and parent_ok(path) == "missing":
            expect = E["notfound"]
        elif key is None and parent_ok(path) == "file":
            expect = E["exists"]
    elif k == "delete":
        if key is not None and model[key][0] == "dir" and any(k_ != key and p.is_subpath(key, k_) for k_ in model):
            expect = E["exists"]
    elif k == "upload":
        if key is None:
            expect = "skip"
        elif model[key][0] == "dir":
            expect = E["exists"]
    elif k == "rename":
        dst = op[2]
        dkey = mkey(dst)
        if key is None:
            expect = "skip"
        elif p.is_subpath(key, dst, strict=True):
            expect = "any-error"
        elif parent_ok(dst) == "missing":
            expect = E["notfound"]
        elif parent_ok(dst) == "file":
            expect = E["exists"]
        elif dkey is not None and dkey != key:
            # renaming over something: allowed only over an empty folder by a folder / documented as exists error otherwise
            expect = "maybe-exists"
    if expect == "skip":
        return None
    try:
        if k == "create":
            info = p.create(path, io.BytesIO(op[2]))
            got = None
        elif k == "mkdir":
            p.mkdir(path)
            got = None
        elif k == "delete":
            if key is not None:
                p.delete(p.info_path(key).oid)
            else:
                p.delete("no-such-oid" if not p.oid_is_path else path)
            got = None
        elif k == "upload":
            p.upload(p.info_path(key).oid, io.BytesIO(op[2]))
            got = None
        elif k == "rename":
            old = p.info_path(key)
            new_oid = p.rename(old.oid, op[2])
            got = None
            if not p.oid_is_path and new_oid != old.oid:
                return "id-style provider changed the id on rename (%r -> %r)" % (old.oid, new_oid)
    except Exception as e:
        got = type(e).__name__
    if expect in (None,) and got is not None:
        return "%s%r raised %s, the reference tree says it should succeed" % (k, op[1:2], got)
    if expect == "any-error":
        if got is None:
            return "%s%r succeeded, an error was expected" % (k, op[1:3])
        return None
    if expect == "maybe-exists":
        if got is not None and got != E["exists"]:
            return "%s over an existing object raised %s (expected success or %s)" % (k, got, E["exists"])
    elif expect is not None and got != expect:
        return "%s%r: expected %s, got %s" % (k, op[1:2], expect, got or "success")
    if got is not None:
        return None
    # update the reference tree
    if k == "create":
        model[path] = ("file", op[2])
    elif k == "mkdir":
        if key is None:
            model[path] = ("dir", None)
    elif k == "delete":
        if key is not None:
            del model[key]
    elif k == "upload":
        model[key] = ("file", op[2])
    elif k == "rename":
        dst = op[2]
        dkey = mkey(dst)
        moved = {}
        for k_ in list(model):
            if k_ == key:
                moved[dst] = model.pop(k_)
            else:
                rel = p.is_subpath(key, k_, strict=True)
                if rel:
                    moved[p.join(dst, rel)] = model.pop(k_)
        if dkey is not None and dkey != key:
            for k_ in list(model):
                if k_ == dkey or p.is_subpath(dkey, k_, strict=True):
                    model.pop(k_)
        model.update(moved)
    return None


def _run_chunk(arg):
    repo, tmp_root, wid, seqs, offset = arg
    E = {"exists": "CloudFileExistsError", "notfound": "CloudFileNotFoundError", "name": "CloudFileNameError"}
    failures, evaluations, distinct = [], 0, set()
    seen_fail = set()
    for si, seq in enumerate(seqs):
        d = os.path.join(tmp_root, "w%d_s%d" % (wid, si))
        os.makedirs(d)
        for name, p, _ in _mk_providers(repo, d, with_fs=(si % 16 == 0)):
            if p is None:
                continue
            model = {}
            if name.startswith("mock"):
                list(p.events())           # drain
            for k, op in enumerate(seq):
                evaluations += 1
                try:
                    before_ids = {v[1] for v in _tree(p).values()} if name.startswith("mock") else None
                    msg = _apply(p, model, op, E)
                    if msg is None:
                        msg = _check_consistency(name, p, model, op)
                    if msg is None and before_ids is not None:
                        after_ids = {v[1] for v in _tree(p).values()}
                        evs = list(p.events())
                        def under(anc, x):
                            # ids of a path-style provider are paths: what lies below a renamed folder moves with it
                            # and is covered by the folder's own rename event
                            return p.oid_is_path and anc is not None and x is not None and bool(p.is_subpath(anc, x, strict=True))
                        for gone in before_ids - after_ids:
                            if not any((e.oid == gone and e.exists is False) or getattr(e, "prior_oid", None) == gone
                                       or under(getattr(e, "prior_oid", None), gone) for e in evs):
                                msg = "object id %r stopped existing but the event stream never reported it (events: %s)" % (
                                    gone, [(e.oid, e.exists) for e in evs])
                        for new in after_ids - before_ids:
                            if not any(e.exists is not False and (e.oid == new or (getattr(e, "prior_oid", None) and under(e.oid, new))) for e in evs):
                                msg = "object id %r started to exist but the event stream never reported it (events: %s)" % (
                                    new, [(e.oid, e.exists) for e in evs])
                except Exception as e:
                    msg = "harness observed %s: %s" % (type(e).__name__, str(e)[:100])
                if msg is not None:
                    key = (name, op[0], msg[:30])
                    if key not in seen_fail:
                        seen_fail.add(key)
                        failures.append((key, {"what": "%s: after %s: %s" % (name, [o[:2] for o in seq[:k + 1]], msg),
                                         "witness": {"provider": name, "ops": [list(map(lambda x: x.hex() if isinstance(x, bytes) else x, o)) for o in seq[:k + 1]],
                                                     "law": "reference-tree", "op": op[0],
                                                     "rename_into_own_subtree": bool(op[0] == "rename" and "succeeded, an error was expected" in msg)},
                                         "replay_data": {"provider": name, "message": msg}}))
                    break
            distinct.add((name, tuple(o[0] for o in seq)))
        shutil.rmtree(d, ignore_errors=True)
    return failures, evaluations, distinct


def run(repo, tier, seed):
    if repo not in sys.path:
        sys.path.insert(0, repo)
    import logging
    logging.disable(logging.CRITICAL)
    rng = random.Random(seed + 16)
    failures, samples = [], []
    evaluations = 0
    distinct = set()
    E = {"exists": "CloudFileExistsError", "notfound": "CloudFileNotFoundError", "name": "CloudFileNameError"}
    universe = _ops_universe()
    depth = 3 if tier == "quick" else 4
    n_random = 300 if tier == "quick" else 20000
    tmp_root = tempfile.mkdtemp(prefix="verif_prov_")
    try:
        # ---- hash law and identity check
        for name, p, _ in _mk_providers(repo, os.path.join(tmp_root, "hash")) if os.makedirs(os.path.join(tmp_root, "hash"), exist_ok=True) is None else []:
            if p is None:
                failures.append({"what": "%s" % name, "witness": {"provider": name, "law": "unavailable"}, "replay_data": None})
                continue
            evaluations += _hash_law(name, p, rng, failures)
            distinct.add((name, "hash"))
        from cloudsync.providers.mock import MockProvider
        from cloudsync.exceptions import CloudTokenError
        for oip in (False, True):
            p = MockProvider(oip, True)
            p.connect({"key": "val"})
            cid = p.connection_id
            p.disconnect()
            p.connect({"key": "val"})
            evaluations += 1
            if p.connection_id != cid or not p.connected:
                failures.append({"what": "reconnecting with the same identity changed the connection id", "witness": {"law": "identity-same"}, "replay_data": None})
            real_impl = p.connect_impl
            p.connect_impl = lambda creds: "some-other-identity"
            try:
                p.connect({"key": "other"})
                refused = False
            except CloudTokenError:
                refused = True
            p.connect_impl = real_impl
            evaluations += 1
            if not refused or p.connected:
                failures.append({"what": "connecting with credentials of a different identity was not refused (refused=%s connected=%s)" % (refused, p.connected),
                                 "witness": {"law": "identity-different"}, "replay_data": None})
            distinct.add(("identity", oip))
        # ---- operation sequences against the reference tree (all cores: one chunk of sequences per worker)
        seqs = []
        for n in range(1, depth + 1):
            for seq in itertools.product(universe, repeat=n):
                if n == 4 and rng.random() > 0.25:
                    continue
                seqs.append(seq)
        for _ in range(n_random):
            seqs.append(tuple(rng.choice(universe) for _ in range(rng.randint(4, 8))))
        nproc = min(16, os.cpu_count() or 1)
        chunks = [(repo, tmp_root, w, seqs[w::nproc], w) for w in range(nproc)]
        import multiprocessing as mp
        with mp.get_context("fork").Pool(nproc) as pool:
            parts = pool.map(_run_chunk, chunks)
        seen_fail = set()
        for fl, ev, dis in parts:
            evaluations += ev
            distinct |= dis
            for key, f in fl:
                if key not in seen_fail:
                    seen_fail.add(key)
                    failures.append(f)
        samples = [[o[:2] for o in seq] for seq in seqs[:3]]
    finally:
        shutil.rmtree(tmp_root, ignore_errors=True)
    return {"name": "providers_vs_reference_tree", "bound": "hash law for sizes %s on 5 providers; identity check; all sequences of <= %d calls (%s) over %d operations and %d random sequences of 4-8 calls on 4 mock flavours (every 16th also on the filesystem provider)"
            % (list(SIZES), depth, "exhaustive" if tier == "quick" else "lengths 1-3 exhaustive, 25% sample of length 4", len(universe), n_random),
            "evaluations": evaluations, "distinct_nontrivial": len(distinct), "exhaustive": False,
            "rule": "operation sequences compared call by call with a reference tree; distinct = distinct (provider, op-kind sequence)",
            "samples": samples, "failures": failures}
