"""C13 (and the path lemmas used by C12): laws of the provider path helpers.

Subject code: cloudsync/provider.py  Provider.normalize_path_separators, split, dirname, basename,
join, is_subpath, replace_path, paths_match.  `p` is a provider object under one of the 12 path
conventions (sep, alt_sep, case_sensitive, win_paths); strings are unbounded.

Validity predicates (from the call sites: roots and folders handed to is_subpath/translate are
provider paths, i.e. they start with a separator once normalised):
    is_abs(p, f)      nps(f) starts with sep
    has_content(p, r) nps(r) stripped of separators is non-empty
"""
from pyvc.dsl import *   # noqa  (assume, check, implies, ... -- resolved by the verifier / replay harness)


def nps(p, x):
    return p.normalize_path_separators(x)


def is_abs(p, f):
    return nps(p, f).startswith(p.sep)


def drive_free(p, x):
    """on win_paths providers the second character decides whether join prepends a separator"""
    return not p.win_paths or len(x) < 2 or x[1] != ":"


# --------------------------------------------------------------------------- totality / safety

@lemma(props=["C13", "C12"])
def nps_contract(p: Prov, x: str):
    """Contract of normalize_path_separators; the other lemmas use it in place of the body
    (pyvc/fixtures.py nps_contract_axioms has the same clauses)."""
    a = nps(p, x)
    check(nps(p, a) == a, "nps idempotent")
    check(p.alt_sep is None or p.alt_sep not in a, "nps removes alternate separators")
    check(a == p.sep or not a.endswith(p.sep), "nps strips trailing separators")
    check(len(a) <= len(x), "nps never grows")
    normal = (x == p.sep or not x.endswith(p.sep)) and (p.alt_sep is None or p.alt_sep not in x)
    check(implies(normal, a == x), "nps is the identity on normalised paths")
    check(implies(a.startswith(p.sep), x.startswith(p.sep) or (p.alt_sep is not None and x.startswith(p.alt_sep))),
          "a leading separator comes from the input")
    check((":" in a) == (":" in x) and ("." in a) == ("." in x), "nps keeps other characters")
    check(nps(p, None) is None and nps(p, "") == "", "falsy input is returned unchanged")


@lemma(props=["C13"])
def split_total(p: Prov, x: str):
    d, b = p.split(x)
    check(p.sep not in b, "basename has no separator")
    a = nps(p, x)
    check(implies(p.sep not in a, d == "" and b == a), "no separator: all basename")
    check(implies(p.sep in a, d + p.sep + b == a or (d == p.sep and p.sep + b == a)), "split recomposes")
    check(p.dirname(x) == d and p.basename(x) == b, "dirname/basename are the split halves")


@lemma(props=["C13", "C12"], opaque=["nps"])
def is_subpath_total(p: Prov, folder: str, target: str, strict: bool):
    r = p.is_subpath(folder, target, strict)
    if r:
        check(len(r) > 0 and r.startswith(p.sep), "truthy result is a relative part starting at a separator")
    else:
        check(r is False, "falsy result is False")


@lemma(props=["C13"], raises=["ValueError"], opaque=["nps"])
def replace_path_raises_only_valueerror(p: Prov, x: str, f: str, g: str):
    p.replace_path(x, f, g)


@lemma(props=["C13"], opaque=["nps"])
def replace_path_valueerror_iff_not_subpath(p: Prov, x: str, f: str, g: str):
    sub = p.is_subpath(f, x)
    try:
        p.replace_path(x, f, g)
        raised = False
    except ValueError:
        raised = True
    check(iff(raised, not truthy(sub)), "ValueError exactly when not a subpath")


@lemma(props=["C13"], opaque=["nps"])
def join1_total(p: Prov, a: str):
    assume(drive_free(p, nps(p, a)))
    j = p.join(a)
    check(j.startswith(p.sep), "join result is absolute")
    check(j == p.sep or not j.endswith(p.sep), "join result has no trailing separator")


@lemma(props=["C13"], opaque=["nps"])
def join2_total(p: Prov, a: str, b: str):
    j = p.join(a, b)
    check(len(j) > 0, "join result non-empty")
    check(j == p.sep or not j.endswith(p.sep), "join result has no trailing separator")


# --------------------------------------------------------------------------- laws

@lemma(props=["C13", "C12"], opaque=["nps"])
def joined_is_inside(p: Prov, folder: str, rel: str):
    """law 3: a folder joined with a relative part is inside that folder, with that relative part"""
    f = nps(p, folder)
    assume(f.startswith(p.sep))
    r = nps(p, rel).strip(p.sep)
    assume(len(r) > 0)
    # win_paths: a relative part that looks like a drive ("c:...") joined to the root keeps no leading separator
    assume(not p.win_paths or f != p.sep or len(r) < 2 or r[1] != ":")
    j = p.join(folder, rel)
    # the value of the join, proved here and used below in place of j (rewriting by a proved equality)
    if f == p.sep:
        jj = p.sep + r
    else:
        jj = f + p.sep + r
    check(j == jj, "join is folder + sep + relative part")
    check(nps(p, jj) == jj, "join result is normalised")
    if not p.case_sensitive:
        # cut lemmas about case folding (instantiate the `lower` specification on the concatenation)
        check(jj.lower() == (p.sep + r.lower() if f == p.sep else f.lower() + p.sep + r.lower()),
              "case folding distributes over the joined path")
        check(nps(p, jj).lower() == jj.lower(), "the normalised join folds to the same string")
        check(f.lower() != jj.lower(), "folder and joined path differ after folding")
    s = p.is_subpath(folder, jj)
    check(truthy(s), "joined path is reported inside the folder")
    check(s == p.sep + r, "with the same relative part")


@lemma(props=["C13", "C12"], opaque=["nps"])
def joined_empty_is_folder(p: Prov, folder: str, rel: str):
    f = nps(p, folder)
    assume(f.startswith(p.sep))
    assume(len(nps(p, rel).strip(p.sep)) == 0)
    j = p.join(folder, rel)
    check(j == p.join(folder), "joining nothing gives the folder")


@lemma(props=["C13", "C12"], opaque=["nps"])
def prefix_sibling_not_inside(p: Prov, folder: str, x: str, c: str, t: str):
    """law 4: a path that only shares a name prefix with the folder is not inside it"""
    f = nps(p, folder)
    assume(f.startswith(p.sep))
    assume(f != p.sep)
    assume(len(c) == 1)
    assume(c != p.sep)
    assume(p.alt_sep is None or c != p.alt_sep)
    assume(nps(p, x) == f + c + t)
    ghost = ((f + c + t).lower(), f.lower(), c.lower())
    s = p.is_subpath(folder, x)
    check(not truthy(s), "prefix sibling is not a subpath")


@lemma(props=["C13", "C12"], opaque=["nps"])
def subpath_is_component_boundary(p: Prov, folder: str, target: str):
    """is_subpath truthy => target (normalised) is folder (normalised, case-folded as configured) + sep + rest,
    or equal to it; the relative part is what follows"""
    f = nps(p, folder)
    assume(f.startswith(p.sep))
    s = p.is_subpath(folder, target)
    assume(truthy(s))
    t = nps(p, target)
    check(s == p.sep or t.endswith(s), "relative part is a suffix of the target")
    check(s == p.sep or s.startswith(p.sep), "relative part starts at a separator")
    check(implies(s != p.sep and f != p.sep, len(t) == len(f) + len(s)), "folder + relative = target (lengths)")
    if p.case_sensitive:
        check(implies(s != p.sep and f != p.sep, t == f + s), "folder + relative = target")
        check(implies(s == p.sep, t == f), "sep means same path")


@lemma(props=["C13", "C12"], opaque=["nps"])
def same_path_is_inside_itself(p: Prov, folder: str, target: str):
    """law 6 / law 8: a target that *is* the folder -- equal after separator normalisation, up to letter case on a
    case-insensitive provider -- is reported as inside it with the empty relative part (the separator), and as not
    inside it when asked strictly; so is_subpath agrees with path equality and the root itself translates"""
    f = nps(p, folder)
    t = nps(p, target)
    assume(f.startswith(p.sep))
    if p.case_sensitive:
        assume(f == t)
    else:
        assume(f.lower() == t.lower())
    check(p.is_subpath(folder, target) == p.sep, "the folder itself is inside the folder, relative part empty")
    check(p.is_subpath(folder, target, True) is False, "strictly, the folder is not inside itself")


@lemma(props=["C13"], opaque=["nps"])
def replace_moves_relative_part(p: Prov, x: str, f: str, g: str):
    """law 5: replacing a folder prefix moves exactly the relative part"""
    s = p.is_subpath(f, x)
    assume(truthy(s))
    r = p.replace_path(x, f, g)
    check(implies(s == p.sep, r == nps(p, g)), "same path maps to the new folder")
    check(implies(s != p.sep, r == nps(p, g) + s), "relative part appended unchanged")


@lemma(props=["C13"], opaque=["normalize_path"])
def paths_match_equivalence(p: Prov, a: opt_str, b: opt_str, c: opt_str, d: bool):
    """law 6: reflexive, symmetric, transitive, and agrees with normalize_path"""
    check(p.paths_match(a, a, d), "reflexive")
    check(p.paths_match(a, b, d) == p.paths_match(b, a, d), "symmetric")
    check(implies(p.paths_match(a, b, d) and p.paths_match(b, c, d), p.paths_match(a, c, d)), "transitive")
    if a is not None and b is not None:
        check(p.paths_match(a, b, d) == (p.normalize_path(a, d) == p.normalize_path(b, d)), "agrees with normalisation")
    if a is None and b is not None:
        check(not p.paths_match(a, b, d), "None matches only None")


# --------------------------------------------------------------------------- translate (cloudsync/cs.py)

@lemma(props=["C13", "C12"], configs="provider_pairs", opaque=["nps"])
def translate_uses_source_conventions(cs: CS, path: str):
    """law 8 / L12.1: CloudSync.translate(side, path) decides "inside the other side's root" with the *source*
    provider's path rules, yields nothing for everything outside that root, and otherwise joins the relative part
    to this side's root with this side's provider"""
    side = cs_side(cs)
    src = cs.providers[1 - side]
    dst = cs.providers[side]
    rel = src.is_subpath(cs.roots[1 - side], path)
    t = cs.translate(side, path)
    if rel:
        check(t is not None, "a path inside the source root translates")
        check(t == dst.join(cs.roots[side], rel), "to the destination root joined with the same relative part")
    else:
        check(t is None, "a path outside the source root translates to nothing")
