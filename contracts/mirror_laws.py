"""Function-level contracts of the mirroring functions of the sync manager that create, rename and make
folders on the other side (cloudsync/sync/manager.py: _create_synced, create_synced, handle_rename,
unsafe_mkdir_synced).  Same symbolic world as contracts/engine_laws.py.
"""
from pyvc.dsl import *   # noqa
from cloudsync.sync.state import TRASHED, MISSING, EXISTS, UNKNOWN, LIKELY_TRASHED, CORRUPT
from cloudsync.sync.manager import FINISHED, PUNT, REQUEUE
from cloudsync.types import DIRECTORY, FILE, IgnoreReason
import cloudsync.exceptions as ex


@lemma(props=["C03", "C07", "C02", "C04"], configs="sides", raises=["Exception"])
def create_synced_records_both_sides(w: World, translated_path: str):
    """L3.3 / L7.4: creating the peer of a new file writes only to the other side and only by `create` at the translated
    path, at most once; when an object is already there (CloudFileExistsError) it is adopted only if its content hash
    equals the hash of the bytes that were to be written -- never re-created, never overwritten; on normal return both
    sides are recorded as synced and the peer's id is the created / adopted object's id"""
    mgr = w.mgr
    sync = w.entry("sync")
    changed = w.changed
    synced = w.synced
    assume(sync[changed].temp_file is not None and len(sync[changed].temp_file) > 0)
    own_hash = sync[changed].hash
    own_path = sync[changed].path
    mgr._create_synced(changed, sync, translated_path)
    # ---- normal return only from here on
    ws = provider_writes()
    check(len(ws) == 1, "exactly one provider write")
    c = ws[0]
    check(c.side == synced and c.method == "create" and c.args[0] == translated_path,
          "the write is a create at the translated path on the other side")
    if c.ok:
        info = c.result
    else:
        info = None
        same_content = False
        for q in provider_calls():
            if q.method == "info_path" and q.side == synced and q.args[0] == translated_path and q.ok:
                info = q.result
        check(info is not None, "what is in the way was looked up at the translated path on the other side, and is there")
        for q in provider_calls():
            if q.method == "hash_data" and q.side == synced and q.ok and q.result == info.hash:
                same_content = True
        check(same_content, "it is adopted only if it holds the same content, hashed with the other side's hash function")
    check(sync[synced].oid == info.oid, "the peer id is the created / adopted object's id")
    check(sync[synced].exists == EXISTS or sync[synced].exists == LIKELY_TRASHED
          or (sync[synced].exists == CORRUPT and sync[synced]._saved_exists in (EXISTS, LIKELY_TRASHED)),
          "and the peer is recorded as existing (or corrupt over existing)")
    check(sync[synced].sync_hash == info.hash, "synced side: sync_hash is the created hash")
    check(sync[changed].sync_hash == own_hash, "changed side: sync_hash is its own hash")
    check(sync[changed].sync_path == own_path, "changed side: sync_path is its own path")
    check(sync[synced].sync_path == info.path or (not truthy(info.path) and sync[synced].sync_path == translated_path),
          "synced side: sync_path is where the object was created")
    check(truthy(own_hash), "a file without a hash is never created on the other side")


@lemma(props=["C03", "C10", "C02", "C05", "C04"], configs="sides", raises=["Exception"],
       stubs={"cloudsync.sync.manager:SyncManager._create_synced": {"results": ["None"], "havoc": True},
              "cloudsync.sync.manager:SyncManager.handle_cloud_file_not_found_error": {"results": ["PUNT"], "havoc": True}})
def create_synced_fault_table(w: World, translated_path: str):
    """L3.4 / L10.4: the wrapper around the create: success is FINISHED; a missing parent is handed to the parent
    handler; a bad name freezes the entry as irrelevant (FINISHED, one FILE_NAME_ERROR notification at most); an
    object in the way is a PUNT and is adopted into the entry only when the provider confirms it is there; the wrapper itself never writes to a provider"""
    mgr = w.mgr
    sync = w.entry("sync")
    changed = w.changed
    synced = w.synced
    r = mgr.create_synced(changed, sync, translated_path)
    check(len(provider_writes()) == 0, "the wrapper itself writes nothing")
    check(r == FINISHED or r == PUNT, "finished or punt")
    for c in provider_calls():
        if c.method == "info_path" and c.side == synced and c.args[0] == translated_path and c.ok and c.result is not None and r == PUNT:
            check(sync[synced].oid == c.result.oid, "the object in the way becomes the entry's peer")
            check(sync[synced].path == w.providers[synced].normalize_path_separators(translated_path), "at the translated path")
            check(sync[synced].hash == c.result.hash, "with the hash the provider reports for it (so that a content difference shows up as a conflict)")
    if len(notifications()) > 0:
        check(r == FINISHED and sync.is_irrelevant, "a bad name is reported only when the entry is frozen as irrelevant and finished")


@lemma(props=["C03", "C04", "C02"], configs="sides", raises=["Exception"],
       stubs={"cloudsync.sync.manager:SyncManager.handle_cloud_file_not_found_error": {"results": ["PUNT"], "havoc": True},
              "cloudsync.sync.manager:SyncManager.rename_to_fix_conflict": {"results": ["True", "False"], "havoc": True}})
def handle_rename_effects(w: World, translated_path: str):
    """L3.5 / L4.3: mirroring a rename: nothing at all when the peer is already recorded at the translated path; the
    first provider write is a rename of the entry's own peer object to the translated path on the other side; on success
    both sides are recorded as synced at their paths and the peer id is what rename returned; the only other write
    this function issues itself is the removal of a fully synced entry that is in the way, tombstoned at once, after
    which the entry is punted (never finished)"""
    mgr = w.mgr
    sync = w.entry("sync")
    changed = w.changed
    synced = w.synced
    assume(sync[synced].oid is not None)
    peer = sync[synced].oid
    own_path = sync[changed].path
    sp0 = sync[synced].sync_path
    prio0 = sync.priority
    hashes0 = (sync[changed].hash, sync[changed].sync_hash, sync[synced].hash, sync[synced].sync_hash)
    r = mgr.handle_rename(sync, changed, synced, translated_path)
    ws = provider_writes()
    check(r == FINISHED or r == PUNT, "finished or punt")
    for c in ws:
        check(c.side == synced, "writes only on the other side")
    if sp0 == translated_path:
        check(len(ws) == 0 and r == FINISHED, "already there: nothing to do")
    if len(ws) >= 1:
        check(ws[0].method == "rename" and ws[0].args[0] == peer and ws[0].args[1] == translated_path,
              "the first write renames the entry's own peer to the translated path")
        if ws[0].ok:
            check(len(ws) == 1 and r == FINISHED, "a successful rename is the only write and finishes the entry")
            check(sync[synced].sync_path == translated_path, "synced side: recorded at the translated path")
            check(sync[changed].sync_path == own_path, "changed side: recorded at its own path")
            check(sync[synced].oid == ws[0].result, "the peer id is what rename returned")
            check((sync[changed].hash, sync[changed].sync_hash, sync[synced].hash, sync[synced].sync_hash) == hashes0,
                  "a rename mirrors the name only: no content hash or last-synced hash changes (a content change made together "
                  "with the rename is still pending)")
        else:
            check(sync[synced].sync_path == sp0, "a failed rename is not recorded")
    if len(ws) >= 2:
        check(len(ws) == 2 and ws[1].method == "delete", "the only second write is a delete of what is in the way")
        check(prio0 > 0, "only for an entry that was punted before")
        if ws[1].ok:
            check(r == PUNT, "and then the entry is punted")
            found = False
            for e in all_entries(w.state):
                tomb = e[synced].exists == TRASHED or (e[synced].exists == CORRUPT and e[synced]._saved_exists == TRASHED)
                if e is not sync and e[synced].oid == ws[1].args[0] and tomb and not e[changed].needs_sync():
                    found = True
            check(found, "what was removed belongs to another entry, tombstoned at once, whose other side had nothing pending")


@lemma(props=["C03", "C04", "C02"], configs="sides", raises=["Exception"],
       stubs={"cloudsync.sync.manager:SyncManager.resolve_conflict": {"results": ["None"], "havoc": True},
              # contract proved by folder_file_conflict_contract below: no write, drops nothing
              "cloudsync.sync.manager:SyncManager.get_folder_file_conflict": {"results": ["None", "entry"], "havoc": False}})
def mkdir_synced_effects(w: World, translated_path: str):
    """L3.6: mirroring a new folder: the only provider write is one `mkdirs` of the translated path on the other side;
    on success both sides are recorded as synced at their paths and the peer id is the folder's id; when a file is in
    the way the conflict is handed to the resolver, no folder is made and the entry is punted; the entry itself is never
    dropped on the way (only duplicate folder entries are)"""
    mgr = w.mgr
    sync = w.entry("sync")
    changed = w.changed
    synced = w.synced
    own_path = sync[changed].path
    ign0 = sync.ignored
    r = mgr.unsafe_mkdir_synced(changed, synced, sync, translated_path)
    ws = provider_writes()
    check(r == FINISHED or r == PUNT, "finished or punt")
    check(len(ws) <= 1, "at most one provider write")
    for c in ws:
        check(c.side == synced and c.method == "mkdirs" and c.args[0] == translated_path,
              "the write makes the folder at the translated path on the other side")
    if len(calls("resolve_conflict")) > 0:
        check(len(ws) == 0 and r == PUNT, "a file in the way: no folder is made, the entry is punted")
    if len(ws) == 1 and ws[0].ok:
        check(r == FINISHED, "a folder that was made finishes the entry")
    if r == FINISHED:
        check(len(ws) == 1 and ws[0].ok, "finished only after the folder was made")
        check(sync[synced].sync_path == translated_path, "synced side: recorded at the translated path")
        check(sync[changed].sync_path == own_path, "changed side: recorded at its own path")
        check(sync[synced].oid == ws[0].result, "the peer id is the folder's id")
    if len(calls("resolve_conflict")) == 0:
        check(sync.ignored == ign0, "the entry itself is never dropped")


@lemma(props=["C03", "C04", "C02"], configs="sides", raises=["Exception"])
def folder_file_conflict_contract(w: World, translated_path: str):
    """contract of get_folder_file_conflict used by mkdir_synced_effects: it never writes to a provider, only asks the
    other side about ids, drops no entry, and what it returns is another entry that holds a live non-folder there"""
    mgr = w.mgr
    sync = w.entry("sync")
    other = w.entry("other")
    synced = w.synced
    ign_s = sync.ignored
    ign_o = other.ignored
    r = mgr.get_folder_file_conflict(sync, translated_path, synced)
    check(len(provider_writes()) == 0, "no provider write")
    for c in provider_calls():
        check(c.side == synced and c.method == "info_oid", "only id look-ups on the other side")
    check(sync.ignored == ign_s and other.ignored == ign_o, "no entry is dropped")
    if r is not None:
        check(r is not sync, "the conflict is another entry")
        check(r[synced].otype != DIRECTORY, "which is not a folder on the other side")


@lemma(props=["C05", "C02"], configs="sides", raises=["ValueError", "Exception"],
       # the path algebra is proved in path_laws.py; here split / join are arbitrary total functions
       stubs={"cloudsync.provider:Provider.split": {"results": ["str_pair"], "raises": False, "havoc": False},
              "cloudsync.provider:Provider.join": {"results": ["str"], "raises": False, "havoc": False}})
def conflict_rename_only_renames(w: World, path: str):
    """L5.4 / L2.7: moving a conflicting copy out of the way never destroys anything: the only provider writes are renames, on
    that side, of the one object found at the path; the name is tried again (with a counter) only after 'already exists';
    the triple returned is (that object's id, the id the successful rename returned, the new path), or three Nones when
    nothing is at the path"""
    mgr = w.mgr
    side = w.changed
    try:
        r = mgr.conflict_rename(side, path)
        bad_path = False
    except ValueError:
        bad_path = True
    base = calls("split")[0].result[1]
    check(bad_path == (base == ""), "a path without a last component is refused (ValueError) -- and only such a path")
    if bad_path:
        check(len(provider_calls()) == 0, "before anything is asked of the provider")
    assume(not bad_path)
    pcs = provider_calls()
    ws = provider_writes()
    looked = False
    info = None
    for q in pcs:
        if q.method == "info_path" and q.side == side and q.args[0] == path and not looked:
            looked = True
            info = q.result
    check(looked, "the object is looked up at the path on that side")
    if info is None:
        check(len(ws) == 0, "nothing there: no write")
        check(r[0] is None and r[1] is None and r[2] is None, "and three Nones")
    else:
        for c in ws:
            check(c.side == side and c.method == "rename" and c.args[0] == info.oid, "every write is a rename of that object on that side")
        check(r[0] == info.oid, "the old id is reported")
        check(r[1] is not None and r[2] is not None, "with the new id and path")
        found = False
        for c in ws:
            if c.ok and c.result == r[1] and c.args[1] == r[2]:
                found = True
        check(found, "which are those of a rename that succeeded")


@lemma(props=["C03", "C04", "C02", "C12"], configs="sides", raises=["Exception"],
       stubs={"cloudsync.sync.manager:SyncManager.mkdir_synced": {"havoc": False},
              "cloudsync.sync.manager:SyncManager.create_synced": {"havoc": False},
              "cloudsync.sync.manager:SyncManager.handle_rename": {"havoc": False},
              "cloudsync.sync.manager:SyncManager.handle_corrupt": {"results": ["FINISHED"], "havoc": False},
              "cloudsync.sync.manager:SyncManager.download_changed": {"results": ["True", "False"], "havoc": False},
              # only the truthiness of the result is used ("are there children that are not deletions")
              "cloudsync.sync.manager:SyncManager._get_child_conflict": {"results": ["None", "entry"], "raises": False, "havoc": False},
              "cloudsync.sync.manager:SyncManager.check_disjoint_create": {"results": ["True", "False"], "havoc": True}})
def path_change_or_creation_dispatch(w: World):
    """L3.7 / L4.4 / L12.4: how a path change or a new object is mirrored: a path the application's translation declines is
    finished without touching anything; at most one of mkdir / create / rename is attempted, always with the translation
    of the entry's own path; mkdir and create only while the entry is a creation (its peer has no id, is tombstoned or
    corrupt-gone) -- so a live peer is never duplicated -- mkdir for folders, create for everything else and only after the
    content was fetched; a rename only for an entry that is not a creation and not corrupt; the function itself asks
    nothing of the providers"""
    mgr = w.mgr
    sync = w.entry("sync")
    changed = w.changed
    synced = w.synced
    tp = mgr.translate(synced, sync[changed].path)
    r = mgr.handle_path_change_or_creation(sync, changed, synced)
    mk = calls("mkdir_synced")
    cr = calls("create_synced")
    rn = calls("handle_rename")
    dl = calls("download_changed")
    check(len(provider_writes()) == 0, "the dispatcher itself writes nothing to a provider")
    check(len(mk) + len(cr) + len(rn) <= 1, "at most one mirroring action")
    if tp is None:
        check(r == FINISHED and len(mk) + len(cr) + len(rn) + len(dl) == 0, "a path outside the translation is left alone")
    for c in mk:
        check(c.args[0] == changed and c.args[1] is sync and c.args[2] == tp, "mkdir of the translated path of this entry")
        check(sync.is_creation(changed) and sync[changed].otype == DIRECTORY, "only for a folder that is a creation")
    for c in cr:
        check(c.args[0] == changed and c.args[1] is sync and c.args[2] == tp, "create at the translated path of this entry")
        check(truthy(sync.is_creation(changed)) and sync[changed].otype != DIRECTORY, "only for a non-folder that is a creation")
        check(len(dl) == 1, "and only after its content was fetched")
    for c in rn:
        check(c.args[0] is sync and c.args[1] == changed and c.args[2] == synced and c.args[3] == tp, "rename to the translated path of this entry")
        check(not sync.is_creation(changed) and not sync[changed].is_corrupt, "only for an entry that is neither a creation nor corrupt")


@lemma(props=["C02", "C03", "C07", "C04"], configs="sides", raises=["Exception"])
def download_changed_reads_the_entrys_own_object(w: World):
    """L2.8: fetching the changed content never writes to a provider; the only provider call is at most one `download`
    of the entry's own object on the changed side; True is returned only with a temp file recorded (downloaded to a
    '.tmp' sibling first and renamed into place, or an existing temp re-used); a vanished object marks that side MISSING
    and reports False"""
    mgr = w.mgr
    sync = w.entry("sync")
    changed = w.changed
    own = sync[changed].oid
    assume(sync[changed].otype != DIRECTORY)       # call-site fact: folders are mirrored by mkdir, never downloaded
    r = mgr.download_changed(changed, sync)
    pcs = provider_calls()
    check(len(provider_writes()) == 0, "no provider write")
    dls = 0
    for c in pcs:
        if c.method == "download":
            dls = dls + 1
            check(c.side == changed and c.args[0] == own, "what is downloaded is the entry's own object on the changed side")
    check(dls <= 1, "at most one download")
    check(r is True or r is False, "reports success or failure")
    if r is True:
        check(sync[changed].temp_file is not None and len(sync[changed].temp_file) > 0, "success: the content is in the recorded temp file")
        for c in pcs:
            if c.method == "download":
                check(c.ok, "a failed download is never reported as success")


@lemma(props=["C12", "C02"], configs="none", raises=["Exception"])
def revivify_only_when_the_path_became_relevant(w: World):
    """L12.5: an entry that was set aside as irrelevant (outside the synchronised roots) comes back to life only if the
    provider, asked about the entry's own id, reports a path that the application's translation accepts; a live entry,
    a conflicted one, a merely discarded one are left exactly as they are; reviving never writes to a provider and only
    asks `info_oid` about the entry's own ids"""
    mgr = w.mgr
    sync = w.entry("sync")
    ign0 = sync.ignored
    irr0 = sync.is_irrelevant
    oids = (sync[0].oid, sync[1].oid)
    mgr.check_revivify(sync)
    pcs = provider_calls()
    check(len(provider_writes()) == 0, "no provider write")
    for c in pcs:
        if c.method == "info_oid":
            check(c.args[0] == oids[c.side], "only the entry's own ids are looked up")
    if sync.ignored != ign0:
        check(irr0 and sync.ignored == IgnoreReason.NONE, "only an irrelevant entry is revived")
        revived = False
        for c in pcs:
            if c.method == "info_oid" and c.ok and c.result is not None and truthy(c.result.path) and mgr.translate(1 - c.side, c.result.path) is not None:
                revived = True
        check(revived, "and only because a path reported by the provider translates to the other side")
    if not irr0:
        check(sync.ignored == ign0, "an entry that is not irrelevant keeps its status")


@lemma(props=["C02", "C04", "C03"], configs="sides")
def changed_side_missing_never_touches_the_survivor(w: World):
    """L2.9: when the changed side turns out to be missing (not deleted by a user -- just gone), nothing is asked of any
    provider: the surviving copy on the other side is never deleted; after being deferred more than four times the
    survivor is marked unsynced and forced to sync back (so it is re-created, not lost)"""
    mgr = w.mgr
    sync = w.entry("sync")
    changed = w.changed
    synced = w.synced
    survivor = sync[synced].exists == EXISTS
    prio = sync.priority
    s_oid, s_path, s_hash = sync[synced].oid, sync[synced].path, sync[synced].hash
    r = mgr.handle_changed_is_missing(sync, changed, synced)
    check(len(provider_writes()) == 0, "no provider write at all")
    check(sync[synced].oid == s_oid and sync[synced].path == s_path and sync[synced].hash == s_hash and
          (sync[synced].exists == EXISTS) == survivor, "the other side's object is left as it is")
    if survivor and prio <= 4:
        check(r == PUNT, "a surviving copy: wait (punt) first")
    elif survivor:
        check(r == FINISHED, "after enough deferrals the step finishes")
        check(sync[synced].sync_path is None and sync[synced].sync_hash is None and sync[synced].force_sync is True,
              "and the survivor is marked unsynced and forced to sync back")
        check(sync[changed].oid is None and sync[changed].path is None, "the missing side is forgotten")
    else:
        check(r == FINISHED, "nothing on either side: finished")


@lemma(props=["C02", "C03", "C04"], configs="sides", raises=["Exception"],
       stubs={"cloudsync.sync.manager:SyncManager.download_changed": {"results": ["True", "False"], "havoc": False},
              "cloudsync.sync.manager:SyncManager.upload_synced": {"results": ["True", "False"], "havoc": False},
              "cloudsync.sync.manager:SyncManager.handle_corrupt": {"results": ["FINISHED"], "havoc": False}})
def hash_diff_downloads_then_uploads(w: World):
    """L3.8: a content change with a live peer: the content is fetched first and uploaded second, each at most once, for
    this entry and this direction; FINISHED only if both reported success, otherwise the entry is punted; the function
    itself asks nothing of the providers"""
    mgr = w.mgr
    sync = w.entry("sync")
    changed = w.changed
    synced = w.synced
    assume(sync[changed].path is not None)
    assume(not (sync[synced].exists in (TRASHED, MISSING) or sync[synced].oid is None))
    r = mgr.handle_hash_diff(sync, changed, synced)
    dl = calls("download_changed")
    up = calls("upload_synced")
    check(len(provider_writes()) == 0, "no direct provider write")
    check(len(dl) == 1 and dl[0].args[0] == changed and dl[0].args[1] is sync, "the changed side's content is fetched once")
    check(len(up) <= 1, "at most one upload")
    for c in up:
        check(c.args[0] == changed and c.args[1] is sync and dl[0].result is True, "uploaded only after a successful fetch, same entry and direction")
    seen_upload = False
    for n in effect_names():
        if n == "upload_synced":
            seen_upload = True
        if n == "download_changed":
            check(not seen_upload, "fetch before upload")
    if r == FINISHED and len(calls("handle_corrupt")) == 0:
        check(len(up) == 1 and up[0].result is True, "finished only after a successful upload")


@lemma(props=["C05", "C11", "C02"], configs="sides", raises=["Exception"],
       stubs={"cloudsync.sync.manager:SyncManager.conflict_rename": {"results": ["triple"], "havoc": False}})
def rename_to_fix_conflict_follows_the_moved_object(w: World, path: str):
    """L5.5: after a conflict rename the state follows the object that was moved: the new id is recorded on the entry that
    owned the old id on that side (the entry being synced, or whichever entry the index knows under the old id) and on no
    other; nothing moved (no object at the path) changes nothing and reports False; no provider is written to here"""
    mgr = w.mgr
    sync = w.entry("sync")
    side = w.changed
    oid0 = sync[side].oid
    ign0 = sync.ignored
    r = mgr.rename_to_fix_conflict(sync, side, path, temp_rename=False)
    cr = calls("conflict_rename")
    check(len(provider_writes()) == 0, "no provider write besides the conflict rename itself")
    check(len(cr) == 1 and cr[0].args[0] == side and cr[0].args[1] == path, "one conflict rename, of this path on this side")
    old_oid, new_oid, new_name = cr[0].result[0], cr[0].result[1], cr[0].result[2]
    if new_name is None:
        check(r is False and sync[side].oid == oid0, "nothing was moved: nothing changes")
    else:
        check(r is True, "something was moved")
        if old_oid == oid0:
            check(sync[side].oid == new_oid, "the entry being synced owned the object: it records the new id")
        else:
            check(sync[side].oid == oid0 or sync[side].oid is None, "another object was moved: this entry keeps its id (unless ousted)")
        check(sync.ignored == ign0, "an ordinary conflict rename never sets the entry aside")


@lemma(props=["C03", "C10", "C02", "C04"], configs="sides", raises=["NotImplementedError", "Exception"],
       stubs={"cloudsync.sync.manager:SyncManager.unsafe_mkdir_synced": {"results": ["FINISHED", "PUNT"], "havoc": False},
              "cloudsync.sync.manager:SyncManager.rename_to_fix_conflict": {"results": ["True", "False"], "havoc": False},
              "cloudsync.sync.manager:SyncManager.handle_file_name_error": {"results": ["None"], "raises": False, "havoc": False}})
def mkdir_synced_fault_table(w: World, translated_path: str):
    """L3.9 / L10.5: the wrapper around making a folder: it never writes to a provider itself; the folder is attempted at
    most once, for this entry and the translated path; while another live entry sits at the same path an entry that was
    never punted waits (PUNT, nothing attempted); a bad name freezes the entry (FINISHED); a missing parent is a PUNT for
    an entry that was not punted yet; the entry itself is never dropped"""
    mgr = w.mgr
    sync = w.entry("sync")
    changed = w.changed
    synced = w.synced
    ign0 = sync.ignored
    prio = sync.priority
    r = mgr.mkdir_synced(changed, sync, translated_path)
    mk = calls("unsafe_mkdir_synced")
    check(len(provider_writes()) == 0, "the wrapper itself writes nothing")
    check(len(mk) <= 1, "the folder is attempted at most once")
    for c in mk:
        check(c.args[0] == changed and c.args[1] == synced and c.args[2] is sync and c.args[3] == translated_path,
              "for this entry, this direction and the translated path")
    check(sync.ignored == ign0, "the entry itself is never dropped here")
    if len(calls("rename_to_fix_conflict")) > 0:
        check(prio > 0, "a conflicting live entry is renamed aside only for an entry that was punted before")
    if len(calls("handle_file_name_error")) > 0:
        check(r == FINISHED, "a bad name finishes the entry")
    check(r is None or r == FINISHED or r == PUNT, "finished, punt, or nothing (retry)")
    if r is None:
        check(sync[synced]._last_gotten == 0, "'already exists': the other side is marked to be re-read before the retry")


@lemma(props=["C10", "C02", "C03", "C07"], configs="sides", raises=["Exception"],
       inline=["cloudsync.sync.manager:SyncManager.make_temp_file"],
       stubs={"cloudsync.sync.manager:SyncManager._temp_file": {"results": ["str"], "raises": False, "havoc": False}})
def temp_file_is_named_after_the_current_content(w: World):
    """L10.7: the file that caches a download is named after the object's path and its *current* content hash, so a cached
    download can only ever be re-used for the same content: after a fault between 'fetched' and 'written to the other side',
    a newer edit of the same file gets a different cache name and is fetched again.  Folders get no cache file."""
    mgr = w.mgr
    sync = w.entry("sync")
    ss = sync[w.changed]
    path0, hash0, tf0, otype0 = ss.path, ss.hash, ss.temp_file, ss.otype
    assume(path0 is not None)
    mgr.make_temp_file(ss)
    m = calls("md5")
    if otype0 == DIRECTORY:
        check(len(m) == 0 and ss.temp_file == tf0, "a folder gets no cache file")
    elif truthy(hash0):
        check(len(m) == 1, "the cache name is computed once")
        arg = m[0].args[0]
        check(arg.parts[0].utf8 == path0, "from the object's path")
        check(arg.parts[1].packed == hash0, "and its current content hash (not the last-synced one)")
        check(ss.temp_file is not None, "and a cache file name is recorded")
