"""C11 / C08: contracts of the SyncState index maintenance, proved on the real bodies of
SideState.__setattr__, SyncState.updated, _change_oid, _change_path (cloudsync/sync/state.py).

The two indexes are *open* maps here: the bindings the code touches are tracked exactly, the rest of
each map is arbitrary -- so every statement below holds whatever else the state contains.  An entry
found through an index is assumed to satisfy the index invariant (it carries the oid/path it was
found under); that the invariant is re-established for every binding is what the lemmas check.
"""
from pyvc.dsl import *   # noqa
from cloudsync.sync.state import TRASHED, MISSING, EXISTS, UNKNOWN, LIKELY_TRASHED
from cloudsync.types import IgnoreReason

REAL_INDEX = ["cloudsync.sync.state:SyncState._change_oid", "cloudsync.sync.state:SyncState._change_path"]


@lemma(props=["C11", "C08"], configs="sides", raises=["AssertionError"],
       inline=["cloudsync.sync.state:SyncState._change_oid", "cloudsync.sync.state:SyncState._change_path",
               "cloudsync.sync.state:SyncState.lookup_oid"])
def oid_assignment_maintains_index_and_pending_set(w: World, oid: opt_str):
    """Assigning an entry's oid: the oid slot leads to the entry (I1/I3); the pending set contains the entry exactly
    when it has a change flag with an oid (I4, given it did before); every entry whose persisted fields changed --
    including a previous owner ousted from the oid -- is marked dirty (L8.3)."""
    state = w.state
    ent = w.entry("ent")
    side = w.changed
    assume(oid is None or len(oid) > 0)
    assume(in_changeset(state, ent) == has_pending_change(ent))
    other_flag_without_oid = truthy(ent[1 - side].changed) and ent[1 - side].oid is None
    prior = state.lookup_oid(side, oid) if oid is not None else None
    ent[side].oid = oid
    if prior is not None and prior is not ent:
        check(prior[side].oid is None, "the previous owner of the id loses it (at most one owner per side)")
    check(ent[side].oid == oid, "the oid is recorded")
    if oid is not None:
        check(state.lookup_oid(side, oid) is ent, "the oid slot leads to the entry")
    check(implies(has_pending_change(ent), in_changeset(state, ent)), "a pending change is never lost from the pending set")
    if not other_flag_without_oid:
        check(in_changeset(state, ent) == has_pending_change(ent), "pending set membership is exact for the entry")
    for e in all_entries(state):
        check(implies(persisted_changed(e), is_dirty(state, e)), "every entry whose persisted fields changed is dirty")
        if e is not ent:
            check(implies(has_pending_change(e) and persisted_changed(e), in_changeset(state, e)),
                  "an ousted entry that still has a pending change stays in the pending set")


@lemma(props=["C11", "C08"], configs="sides", raises=["AssertionError"],
       inline=["cloudsync.sync.state:SyncState._change_oid", "cloudsync.sync.state:SyncState._change_path"])
def changed_flag_maintains_pending_set(w: World, t: opt_float):
    """Setting or clearing a change flag keeps the pending set exact for that entry and marks it dirty"""
    state = w.state
    ent = w.entry("ent")
    side = w.changed
    assume(t is None or t >= 0)
    assume(in_changeset(state, ent) == has_pending_change(ent))
    other_flag_without_oid = truthy(ent[1 - side].changed) and ent[1 - side].oid is None
    ent[side].changed = t
    check(implies(has_pending_change(ent), in_changeset(state, ent)), "a pending change is never lost from the pending set")
    if other_flag_without_oid:
        # known finding D6: the fix-up for "the other side is flagged but has no oid" re-adds the entry using the
        # not-yet-stored flag of this side, so the entry can stay in the pending set without any pending change
        check(in_changeset(state, ent) == has_pending_change(ent), "pending set is exact (other side flagged without oid)")
    else:
        check(in_changeset(state, ent) == has_pending_change(ent), "pending set membership is exact for the entry")
    check(is_dirty(state, ent), "the entry is dirty")


@lemma(props=["C11", "C17"], configs="none", raises=["AssertionError"],
       inline=["cloudsync.sync.state:SyncState.finished"],
       stubs={"cloudsync.sync.state:SyncEntry.is_related_to": {"results": ["True", "False"], "raises": False, "havoc": False}})
def finished_contract(w: World):
    """the body of SyncState.finished against the contract the manager lemmas use for it: force_sync is cleared on the
    sides that carry no change flag; the entry leaves the pending set exactly when neither side is flagged (and is never
    added); another entry is touched only in its priority (the reset loop is abstracted: what the
    priority becomes is not stated here); no flag, id, path or hash of any entry changes"""
    state = w.state
    ent = w.entry("ent")
    other = w.entry("other")
    assume(in_changeset(state, other))
    in0 = in_changeset(state, ent)
    ch0 = truthy(ent[0].changed)
    ch1 = truthy(ent[1].changed)
    fs0, fs1 = ent[0].force_sync, ent[1].force_sync
    op = other.priority
    o_fields = (other[0].changed, other[1].changed, other[0].oid, other[1].oid, other[0].path, other[1].path, other.ignored)
    e_fields = (ent[0].changed, ent[1].changed, ent[0].oid, ent[1].oid, ent[0].path, ent[1].path, ent[0].hash, ent[1].hash, ent.ignored, ent.priority)
    state.finished(ent)
    check(ent[0].force_sync == (fs0 if ch0 else False) and ent[1].force_sync == (fs1 if ch1 else False),
          "force_sync survives only on a side that is still flagged")
    if ch0 or ch1:
        check(in_changeset(state, ent) == in0, "still flagged: membership in the pending set is unchanged")
    else:
        check(not in_changeset(state, ent), "nothing pending: the entry leaves the pending set")
    check((ent[0].changed, ent[1].changed, ent[0].oid, ent[1].oid, ent[0].path, ent[1].path, ent[0].hash, ent[1].hash, ent.ignored, ent.priority) == e_fields,
          "nothing else of the entry changes")
    if other is not ent:
        check((other[0].changed, other[1].changed, other[0].oid, other[1].oid, other[0].path, other[1].path, other.ignored) == o_fields,
              "nothing else of another entry changes")
        check(in_changeset(state, other), "another entry stays in the pending set")


@lemma(props=["C11", "C02", "C04", "C03"], configs="sides")
def entry_predicates_contract(w: World):
    """the classification predicates every dispatch lemma relies on, stated independently of their bodies: what counts as
    needing sync, a creation, a deletion, a path change, discarded / irrelevant / conflicted, trash"""
    e = w.entry("e")
    side = w.changed
    other = w.synced
    s, o = e[side], e[other]
    differ = truthy(e.paths_differ(side))
    ns = s.force_sync or (truthy(s.changed) and truthy(s.oid) and
                          (s.hash != s.sync_hash or differ or s.exists in (TRASHED, MISSING, LIKELY_TRASHED)))
    check(truthy(s.needs_sync()) == ns,
          "needs sync: forced, or flagged with an id and (content differs from last sync, or path differs, or it is gone)")
    gone_other = (not truthy(o.oid)) or o.exists in (TRASHED, MISSING) or truthy(o.corrupt_gone)
    check(truthy(e.is_creation(side)) == (truthy(s.path) and s.exists == EXISTS and ns and gone_other),
          "a creation: a live, named object that needs sync and whose peer has no id, is tombstoned or is corrupt-gone")
    check(truthy(e.is_deletion(side)) == (o.exists == EXISTS and s.exists in (TRASHED, MISSING) and truthy(s.changed)),
          "a deletion: flagged, gone on this side, alive on the other")
    check(truthy(e.is_path_change(side)) == (truthy(s.sync_path) and differ), "a path change: synced before and the path differs now")
    check(e.is_discarded == (e.ignored in (IgnoreReason.DISCARDED, IgnoreReason.IRRELEVANT)), "discarded covers irrelevant")
    check(e.is_irrelevant == (e.ignored == IgnoreReason.IRRELEVANT) and e.is_conflicted == (e.ignored == IgnoreReason.CONFLICT),
          "irrelevant / conflicted are exactly those reasons")
    check(e.is_trash == (e[0].oid is None and e[1].oid is None), "trash: no id on either side")
    both_named_and_hashed = truthy(e[0].hash) and truthy(e[1].hash) and truthy(e[0].path) and truthy(e[1].path)
    check(truthy(e.hash_conflict()) == (both_named_and_hashed and e[0].hash != e[0].sync_hash and e[1].hash != e[1].sync_hash),
          "a content conflict: both sides named and hashed, and both differ from what was last synced")


@lemma(props=["C11", "C05", "C02"], configs="none", raises=["AssertionError"],
       inline=["cloudsync.sync.state:SyncState.split"], fixed_clock=True)
def split_contract(w: World):
    """the body of SyncState.split against the contract the manager lemmas use for it: the LOCAL side of the entry moves,
    with its id, path, hash and existence, to a new entry; the original keeps its REMOTE side untouched and gets an empty
    LOCAL side; both moved-apart sides are flagged changed and forget their last-synced path; the result names
    (original, REMOTE, new entry, LOCAL)"""
    state = w.state
    ent = w.entry("ent")
    assume(ent[0].oid is not None and len(ent[0].oid) > 0)
    # call-site fact (hash conflict / upload to a folder: both sides are known objects); without a REMOTE id the flagging
    # below recurses without bound -- observation D9 in DESIGN.md 12.3
    assume(ent[1].oid is not None and len(ent[1].oid) > 0)
    l_oid, l_path, l_hash, l_ex = ent[0].oid, ent[0].path, ent[0].hash, ent[0].exists
    r_oid, r_path, r_hash, r_ex, r_sh = ent[1].oid, ent[1].path, ent[1].hash, ent[1].exists, ent[1].sync_hash
    d, ds, rep, rs = state.split(ent)
    check(d is ent and ds == 1 and rs == 0 and rep is not ent, "(original, REMOTE, new entry, LOCAL)")
    check(rep[0].oid == l_oid, "the LOCAL side moved to the new entry with its id")
    check(rep[0].path == l_path, "with its path")
    check(rep[0].hash == l_hash, "with its hash")
    check(rep[0].exists == l_ex, "with its existence")
    check(ent[0].oid is None and ent[0].path is None and ent[0].hash is None, "the original's LOCAL side is empty")
    check(ent[1].oid == r_oid and ent[1].path == r_path and ent[1].hash == r_hash and ent[1].exists == r_ex and ent[1].sync_hash == r_sh,
          "the original's REMOTE side is untouched")
    check(truthy(rep[0].changed) and truthy(ent[1].changed), "both moved-apart sides are flagged changed")
    check(rep[0].sync_path is None and ent[1].sync_path is None, "and forget their last-synced path")


@lemma(props=["C14", "C02", "C10"], configs="none", raises=["Exception"],
       inline=["cloudsync.sync.state:SyncEntry.get_latest"],
       stubs={"cloudsync.sync.state:SyncState.unconditionally_get_latest": {"results": ["None"], "havoc": False}})
def get_latest_refreshes_stale_sides(w: World, force: bool):
    """the body of SyncEntry.get_latest against the contract the manager lemmas use for it: a side is re-read from its
    provider exactly when the re-read is forced or some change flag of the entry is newer than that side's last re-read;
    each side is re-read at most once, and afterwards counts as read up to the newest flag"""
    ent = w.entry("ent")
    c0 = ent[0].changed if truthy(ent[0].changed) else 0
    c1 = ent[1].changed if truthy(ent[1].changed) else 0
    newest = c0 if c0 >= c1 else c1
    stale = (newest > ent[0]._last_gotten, newest > ent[1]._last_gotten)
    ent.get_latest(force=force)
    reads = calls("unconditionally_get_latest")
    for s in (0, 1):
        n = 0
        for c in reads:
            if c.args[0] is ent and c.args[1] == s:
                n = n + 1
        check(n == (1 if (force or stale[s]) else 0), "a side is re-read exactly when forced or stale, once")
        if force or stale[s]:
            check(ent[s]._last_gotten == newest, "and then counts as read up to the newest change flag")


@lemma(props=["C11"], configs="sides", raises=["AssertionError"],
       inline=["cloudsync.sync.state:SyncState._change_oid", "cloudsync.sync.state:SyncState._change_path",
               "cloudsync.sync.state:SyncState.lookup_oid"],
       stubs={"cloudsync.sync.state:SyncState._update_kids": {"results": ["None"], "raises": False, "havoc": False}})
def side_state_move_keeps_the_indexes_exact(w: World):
    """moving a side state into an entry (`ent[side] = other[side]`, used by split, merge and rename handling), on the real
    index code: afterwards the entry carries the incoming id and path and is found under the id; the (path, id) slot of the
    path the entry had before no longer leads to it when it no longer carries that path; the source entry gave the side up"""
    state = w.state
    ent = w.entry("ent")
    src = w.entry("src")
    side = w.changed
    assume(ent is not src)
    assume(src[side].oid is not None and len(src[side].oid) > 0)
    # the case generated here: the incoming side has an id but no path yet (path-less provider event, id set after an upload);
    # the general case exceeds the generation budget (four index updates on the real code)
    assume(src[side].path is None)
    assume(not truthy(src[side].changed) and not truthy(src[1 - side].changed))
    old_path = ent[side].path
    new_oid, new_path = src[side].oid, src[side].path
    ent[side] = src[side]
    check(ent[side].oid == new_oid and ent[side].path == new_path, "the entry carries the incoming id and path")
    check(state.lookup_oid(side, new_oid) is ent, "and is found under the id")
    check(src[side].oid is None and src[side].path is None, "the source entry gave the side up")
    if truthy(old_path) and old_path != new_path:
        if old_path in state._paths[side]:
            inner = state._paths[side][old_path]
            if new_oid in inner:
                check(inner[new_oid] is not ent, "no (path, id) slot leads to an entry that no longer carries the path")
