"""C11 / C08: contracts of the SyncState index maintenance, proved on the real bodies of
SideState.__setattr__, SyncState.updated, _change_oid, _change_path (cloudsync/sync/state.py).

The two indexes are *open* maps here: the bindings the code touches are tracked exactly, the rest of
each map is arbitrary -- so every statement below holds whatever else the state contains.  An entry
found through an index is assumed to satisfy the index invariant (it carries the oid/path it was
found under); that the invariant is re-established for every binding is what the lemmas check.
"""
from pyvc.dsl import *   # noqa
from cloudsync.sync.state import TRASHED, MISSING, EXISTS, UNKNOWN
from cloudsync.types import IgnoreReason

REAL_INDEX = ["cloudsync.sync.state:SyncState._change_oid", "cloudsync.sync.state:SyncState._change_path"]


@lemma(props=["C11", "C08"], configs="sides", raises=["AssertionError"],
       inline=["cloudsync.sync.state:SyncState._change_oid", "cloudsync.sync.state:SyncState._change_path",
               "cloudsync.sync.state:SyncState.lookup_oid"])
def oid_assignment_maintains_index_and_pending_set(w: World, oid: opt_str):
    """Assigning an entry's oid: the oid slot leads to the entry (I1/I3); the pending set contains the entry exactly
    when it has a change flag with an oid (I4, given it did before); every entry whose persisted fields changed --
    including a previous owner ousted from the oid -- is marked dirty (L8.3)."""
    state = w.state
    ent = w.entry("ent")
    side = w.changed
    assume(oid is None or len(oid) > 0)
    assume(in_changeset(state, ent) == has_pending_change(ent))
    other_flag_without_oid = truthy(ent[1 - side].changed) and ent[1 - side].oid is None
    ent[side].oid = oid
    check(ent[side].oid == oid, "the oid is recorded")
    if oid is not None:
        check(state.lookup_oid(side, oid) is ent, "the oid slot leads to the entry")
    check(implies(has_pending_change(ent), in_changeset(state, ent)), "a pending change is never lost from the pending set")
    if not other_flag_without_oid:
        check(in_changeset(state, ent) == has_pending_change(ent), "pending set membership is exact for the entry")
    for e in all_entries(state):
        check(implies(persisted_changed(e), is_dirty(state, e)), "every entry whose persisted fields changed is dirty")
        if e is not ent:
            check(implies(has_pending_change(e) and persisted_changed(e), in_changeset(state, e)),
                  "an ousted entry that still has a pending change stays in the pending set")


@lemma(props=["C11", "C08"], configs="sides", raises=["AssertionError"],
       inline=["cloudsync.sync.state:SyncState._change_oid", "cloudsync.sync.state:SyncState._change_path"])
def changed_flag_maintains_pending_set(w: World, t: opt_float):
    """Setting or clearing a change flag keeps the pending set exact for that entry and marks it dirty"""
    state = w.state
    ent = w.entry("ent")
    side = w.changed
    assume(t is None or t >= 0)
    assume(in_changeset(state, ent) == has_pending_change(ent))
    other_flag_without_oid = truthy(ent[1 - side].changed) and ent[1 - side].oid is None
    ent[side].changed = t
    check(implies(has_pending_change(ent), in_changeset(state, ent)), "a pending change is never lost from the pending set")
    if other_flag_without_oid:
        # known finding D6: the fix-up for "the other side is flagged but has no oid" re-adds the entry using the
        # not-yet-stored flag of this side, so the entry can stay in the pending set without any pending change
        check(in_changeset(state, ent) == has_pending_change(ent), "pending set is exact (other side flagged without oid)")
    else:
        check(in_changeset(state, ent) == has_pending_change(ent), "pending set membership is exact for the entry")
    check(is_dirty(state, ent), "the entry is dirty")
