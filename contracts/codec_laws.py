"""C08: the entry codec (SideState/SyncEntry serialize + deserialize in cloudsync/sync/state.py) preserves every
sync-relevant field for every value shape; rows written by older releases still load."""
from pyvc.dsl import *   # noqa
from cloudsync.sync.state import SyncEntry, SyncState, TRASHED, MISSING, EXISTS, UNKNOWN, CORRUPT
from cloudsync.types import IgnoreReason
import msgpack


@lemma(props=["C08", "C06"], configs="none", raises=["AssertionError"])
def entry_codec_round_trip(w: World, sid: int):
    """L8.1: serialising an entry and loading the row back yields an entry equal on every persisted field, for
    arbitrary field values (any hash shape, any path/oid or None, every existence incl. the corrupt marker with any
    saved value, every ignore reason, float / None / 0 change flags)"""
    state = w.state
    e = w.entry("e")
    for s in (0, 1):
        assume(e[s].changed is not False)          # False is only an in-memory transient of a discard
    row = e.serialize()
    state._loading = True
    e2 = SyncEntry(state, None, (sid, row))
    state._loading = False
    check(e2.storage_id == sid, "the row id becomes the storage id")
    check(e2.ignored == e.ignored, "ignore reason survives")
    for s in (0, 1):
        check(e2[s].path == e[s].path and e2[s].oid == e[s].oid, "path and oid survive")
        check(e2[s].hash == e[s].hash and e2[s].sync_hash == e[s].sync_hash, "hash and last-synced hash survive")
        check(e2[s].sync_path == e[s].sync_path, "last-synced path survives")
        check(e2[s].exists == e[s].exists, "existence (incl. the corrupt marker) survives")
        check(e2[s]._saved_exists == e[s]._saved_exists or (e[s]._saved_exists is None and e2[s]._saved_exists is None),
              "the existence saved under a corrupt marker survives")
        check(e2[s].changed == e[s].changed, "pending flag survives")
        check(e2[s].otype == e[s].otype and e2[s].side == s, "type and side survive")
        check(e2[s].size == e[s].size and e2[s].mtime == e[s].mtime and e2[s].temp_file == e[s].temp_file, "size, mtime, temp file survive")


@lemma(props=["C08", "C07"], configs="none", raises=["Exception"])
def storage_update_decision_table(w: World, tag: opt_str):
    """L8.2: what one dirty entry costs the storage back end: nothing without a tag; a stored entry that became trash
    (no id on either side) is deleted by its row id; a stored live entry is rewritten in place under its row id; an
    unstored live entry is created and remembers the new row id; unstored trash is never written.  The bytes written
    are the entry's serialisation *at that moment* (they load back to the entry's current fields)"""
    state = w.state
    e = w.entry("e")
    for s in (0, 1):
        assume(e[s].changed is not False)
    state._storage = w.storage()
    state._tag = tag
    sid0 = e.storage_id
    trash = e[0].oid is None and e[1].oid is None
    state._storage_update(e)
    names = [n for n in effect_names() if n.startswith("storage:")]
    check(len(names) <= 1, "at most one storage call per entry")
    if tag is None:
        check(len(names) == 0, "no tag: nothing is stored")
    elif sid0 is not None and trash:
        check(names == ["storage:delete"], "stored trash is deleted")
        c = calls("storage:delete")[0]
        check(c.args[0] == tag and c.args[1] == sid0, "by tag and row id")
    elif sid0 is not None:
        check(names == ["storage:update"], "a stored live entry is rewritten in place")
        c = calls("storage:update")[0]
        check(c.args[0] == tag and c.args[2] == sid0, "under its tag and row id")
        row = c.args[1]
    elif trash:
        check(len(names) == 0, "unstored trash is never written")
    else:
        check(names == ["storage:create"], "an unstored live entry is created")
        c = calls("storage:create")[0]
        check(c.args[0] == tag, "under the tag")
        check(e.storage_id == c.result, "and remembers the row id it was given")
        row = c.args[1]
    if tag is not None and not trash:
        state._loading = True
        e2 = SyncEntry(state, None, (0, row))
        state._loading = False
        check(e2.ignored == e.ignored and e2.priority == 0 or e2.ignored == e.ignored, "the row carries the ignore reason")
        for s in (0, 1):
            check(e2[s].oid == e[s].oid and e2[s].path == e[s].path, "the row carries the current oid and path")
            check(e2[s].hash == e[s].hash and e2[s].sync_hash == e[s].sync_hash and e2[s].sync_path == e[s].sync_path,
                  "the row carries the current hashes and last-synced path")
            check(e2[s].changed == e[s].changed and e2[s].exists == e[s].exists, "the row carries the pending flag and existence")


@lemma(props=["C08", "C07"], configs="none", raises=["Exception"],
       inline=["cloudsync.sync.state:SyncState.storage_commit"],
       stubs={"cloudsync.sync.state:SyncState._storage_update": {"results": ["None"], "raises": True, "havoc": False}})
def storage_commit_writes_every_dirty_entry(w: World):
    """L8.3: a commit hands every dirty entry to the storage writer and only then forgets the dirty set: on normal
    return the dirty set is empty and an entry that was dirty was written; when a write fails nothing is forgotten"""
    state = w.state
    e = w.entry("e")
    assume(is_dirty(state, e))
    try:
        state.storage_commit()
        failed = False
    except Exception:
        failed = True
    wrote = False
    for c in calls("_storage_update"):
        if c.args[0] is e:
            wrote = True
    if failed:
        check(is_dirty(state, e), "a failed commit forgets nothing")
    else:
        check(not is_dirty(state, e), "after a commit nothing is dirty")
        check(wrote, "every entry that was dirty was handed to the storage writer")


@lemma(props=["C08", "C06", "C11", "C07"], configs="none", raises=["AssertionError"],
       inline=["cloudsync.sync.state:SyncState.lookup_oid"])
def load_rebuilds_indexes_and_pending_set(w: World, sid: int):
    """L8.4 / L6.8: starting a state over storage that holds one row: the entry is rebuilt with the row's fields and its
    storage id, is found under its id and under its path on each side that has an id, and is in the pending set exactly
    when it carries a change flag on a side that has an id -- the rule the running engine maintains (so that a restart
    sees the same pending set); nothing is written to storage while loading"""
    e = w.entry("e")
    for s in (0, 1):
        assume(e[s].changed is not False)
        assume(e[s].oid is None or len(e[s].oid) > 0)
    row = e.serialize()
    store = w.storage({sid: row})
    st2 = SyncState(w.providers, store, "tag", False, None, w.nmgr)
    names = [n for n in effect_names() if n.startswith("storage:")]
    check(names == ["storage:read_all"], "loading reads the rows once and writes nothing")
    pending = False
    for s in (0, 1):
        if e[s].oid is not None:
            got = st2.lookup_oid(s, e[s].oid)
            check(got is not None and got.storage_id == sid, "the entry is found under its id")
            check(got[s].oid == e[s].oid and got[s].path == e[s].path and got[s].hash == e[s].hash and got[s].changed == e[s].changed,
                  "with the row's fields")
            if truthy(e[s].changed):
                pending = True
    for s in (0, 1):
        if e[s].oid is not None:
            got = st2.lookup_oid(s, e[s].oid)
            check(in_changeset(st2, got) == pending, "pending exactly when a side with an id carries a change flag")
        else:
            check(st2.lookup_oid(s, None) is None, "a side without an id is not indexed")


@lemma(props=["C06", "C07", "C08"], configs="none", raises=["AssertionError", "Exception"],
       inline=["cloudsync.sync.state:SyncState.storage_update_data", "cloudsync.sync.state:SyncState.storage_get_data"])
def stored_data_is_written_under_its_tag(w: World, tag: opt_str, sid: int, has_row: bool, old: str, new: str):
    """L6.9: persisting a named datum (the event cursor, the walk record): nothing without a tag; otherwise the value is
    written under that tag -- over the existing row when storage has one for the tag (found through the id cache or by
    reading the tag), as a new row otherwise or when the back end reports that no row was updated -- never under another
    tag, and nothing is deleted; afterwards the id cache names the row that holds the value"""
    state = w.state
    if has_row:
        store = w.storage({sid: old})
    else:
        store = w.storage({})
    state._storage = store
    state.data_id = {}
    state.storage_update_data(tag, new)
    names = [n for n in effect_names() if n in ("storage:update", "storage:create", "storage:delete")]
    if tag is None:
        check(len(names) == 0, "no tag: nothing is written")
    else:
        check("storage:delete" not in names, "nothing is deleted")
        check(len(names) >= 1, "the value is written")
        for c in calls("storage:update"):
            check(has_row and c.args[0] == tag and c.args[1] == new and c.args[2] == sid, "an update goes to the tag's own row with the new value")
        if has_row:
            check(names[0] == "storage:update", "an existing row is updated in place first")
            if len(calls("storage:create")) > 0:
                check(len(calls("storage:update")) == 1 and calls("storage:update")[0].ok and calls("storage:update")[0].result == 0,
                      "a second row is created only if the back end reported that the update changed no row")
        for c in calls("storage:create"):
            check(c.args[0] == tag and c.args[1] == new, "a create stores the new value under the tag")
            check(state.data_id[tag] == c.result, "and the id cache names the new row")
        if has_row and len(calls("storage:create")) == 0:
            check(state.data_id[tag] == sid, "the id cache names the row that was updated")
        if not has_row:
            check(names == ["storage:create"], "no row yet: exactly one create")


@lemma(props=["C08"], configs="none", raises=["AssertionError"])
def legacy_rows_still_load(w: World, sid: int, lex: int, trashed_word: bool, discarded_flag: bool, conflicted_flag: bool):
    """L8.5: rows written by older releases still load: a boolean / None existence becomes EXISTS / TRASHED / UNKNOWN, the
    old ignore word 'trashed' and the old 'discarded' / 'conflicted' flags become the corresponding ignore reason, missing
    'size' / 'mtime' / '_saved_exists' / 'priority' keys load as None / 0; every other field is taken as stored"""
    state = w.state
    e = w.entry("e")
    for s in (0, 1):
        assume(e[s].changed is not False)
    assume(0 <= lex and lex <= 2)
    legacy_exists = True if lex == 0 else (False if lex == 1 else None)
    d0 = e[0].serialize()
    d1 = e[1].serialize()
    d0["exists"] = legacy_exists
    del d0["size"]
    del d0["mtime"]
    del d0["_saved_exists"]
    ser = {"side0": d0, "side1": d1}
    if trashed_word:
        ser["ignored"] = "trashed"
    elif discarded_flag:
        ser["discarded"] = True
    elif conflicted_flag:
        ser["conflicted"] = True
    row = msgpack.dumps(ser, use_bin_type=True)
    state._loading = True
    e2 = SyncEntry(state, None, (sid, row))
    state._loading = False
    want = EXISTS if legacy_exists is True else (TRASHED if legacy_exists is False else UNKNOWN)
    check(e2[0].exists == want, "legacy boolean / None existence is translated")
    check(e2[0].size is None and e2[0].mtime is None and e2[0]._saved_exists is None, "missing newer keys load as None")
    check(e2[0].oid == e[0].oid and e2[0].path == e[0].path and e2[0].hash == e[0].hash and e2[0].sync_hash == e[0].sync_hash,
          "the other fields are taken as stored")
    check(e2[1].exists == e[1].exists and e2[1].oid == e[1].oid, "a current-format side is unaffected")
    if trashed_word or discarded_flag:
        check(e2.ignored == IgnoreReason.DISCARDED, "'trashed' / discarded -> DISCARDED")
    elif conflicted_flag:
        check(e2.ignored == IgnoreReason.CONFLICT, "conflicted -> CONFLICT")
    else:
        check(e2.ignored == IgnoreReason.NONE, "no reason stored: not ignored")
    check(e2.priority == 0, "no stored priority: normal priority")
