"""C08: the entry codec (SideState/SyncEntry serialize + deserialize in cloudsync/sync/state.py) preserves every
sync-relevant field for every value shape; rows written by older releases still load."""
from pyvc.dsl import *   # noqa
from cloudsync.sync.state import SyncEntry, TRASHED, MISSING, EXISTS, UNKNOWN, CORRUPT
from cloudsync.types import IgnoreReason


@lemma(props=["C08", "C06"], configs="none", raises=["AssertionError"])
def entry_codec_round_trip(w: World, sid: int):
    """L8.1: serialising an entry and loading the row back yields an entry equal on every persisted field, for
    arbitrary field values (any hash shape, any path/oid or None, every existence incl. the corrupt marker with any
    saved value, every ignore reason, float / None / 0 change flags)"""
    state = w.state
    e = w.entry("e")
    for s in (0, 1):
        assume(e[s].changed is not False)          # False is only an in-memory transient of a discard
    row = e.serialize()
    state._loading = True
    e2 = SyncEntry(state, None, (sid, row))
    state._loading = False
    check(e2.storage_id == sid, "the row id becomes the storage id")
    check(e2.ignored == e.ignored, "ignore reason survives")
    for s in (0, 1):
        check(e2[s].path == e[s].path and e2[s].oid == e[s].oid, "path and oid survive")
        check(e2[s].hash == e[s].hash and e2[s].sync_hash == e[s].sync_hash, "hash and last-synced hash survive")
        check(e2[s].sync_path == e[s].sync_path, "last-synced path survives")
        check(e2[s].exists == e[s].exists, "existence (incl. the corrupt marker) survives")
        check(e2[s]._saved_exists == e[s]._saved_exists or (e[s]._saved_exists is None and e2[s]._saved_exists is None),
              "the existence saved under a corrupt marker survives")
        check(e2[s].changed == e[s].changed, "pending flag survives")
        check(e2[s].otype == e[s].otype and e2[s].side == s, "type and side survive")
        check(e2[s].size == e[s].size and e2[s].mtime == e[s].mtime and e2[s].temp_file == e[s].temp_file, "size, mtime, temp file survive")
