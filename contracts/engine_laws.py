"""Function-level contracts of the sync engine (cloudsync/sync/manager.py, state.py).

`w` is a symbolic world: two providers that are *arbitrary* implementations of the Provider API
(any call may return any well-typed value or raise any cloud exception), a SyncState whose index
maintenance is replaced by the contracts proved in contracts/state_index.py, and entries whose
fields are arbitrary.  `w.changed` / `w.synced` enumerate both directions.
"""
from pyvc.dsl import *   # noqa
from cloudsync.sync.state import TRASHED, MISSING, EXISTS, UNKNOWN, LIKELY_TRASHED, CORRUPT
from cloudsync.sync.manager import FINISHED, PUNT, REQUEUE
from cloudsync.types import DIRECTORY, FILE, IgnoreReason


@lemma(props=["C02", "C03", "C04"], configs="sides")
def hash_diff_never_uploads_over_deleted_peer(w: World):
    """L2.2: new content is never uploaded over a deleted peer; the upload becomes a create"""
    mgr = w.mgr
    sync = w.entry("sync")
    changed = w.changed
    synced = w.synced
    assume(sync[changed].path is not None)
    assume(sync[synced].exists in (TRASHED, MISSING) or sync[synced].oid is None)
    r = mgr.handle_hash_diff(sync, changed, synced)
    check(len(provider_writes()) == 0, "nothing is written to a provider")
    check(r == PUNT, "the entry is punted")
    check(sync[synced].sync_path is None and sync[synced].sync_hash is None, "synced side forgets its sync markers")
    check(sync[changed].sync_path is None and sync[changed].sync_hash is None, "changed side forgets its sync markers")
    check(sync[synced].oid is None and sync[synced].path is None and sync[synced].hash is None, "synced side is cleared")
    check(sync[synced].exists == UNKNOWN or (sync[synced].exists == CORRUPT and sync[synced]._saved_exists == UNKNOWN),
          "synced side existence is unknown again (or corrupt over unknown)")


@lemma(props=["C02", "C03", "C04", "C12"], configs="sides", raises=["Exception"],
       stubs={"cloudsync.sync.manager:SyncManager._handle_dir_delete_not_empty": {"results": ["FINISHED", "PUNT"], "havoc": False}})
def delete_synced_effects(w: World):
    """L2.1/L4.1/L3.1: propagating a deletion issues at most one provider write, a delete of the peer object
    on the synced side; afterwards the peer is tombstoned and the entry discarded"""
    mgr = w.mgr
    sync = w.entry("sync")
    changed = w.changed
    synced = w.synced
    peer_oid = sync[synced].oid
    was_conflicted = sync.is_conflicted
    r = mgr.delete_synced(sync, changed, synced)
    ws = provider_writes()
    check(len(ws) <= 1, "at most one provider write")
    for c in ws:
        check(c.method == "delete", "the only write is a delete")
        check(c.side == synced, "on the synced side, never on the side where the deletion originated")
        check(c.args[0] == peer_oid and peer_oid is not None, "of the entry's own peer object")
    if r == FINISHED and len(ws) == 1 and ws[0].ok and len(calls("_handle_dir_delete_not_empty")) == 0:
        check(sync[synced].exists == TRASHED or sync[synced].exists == CORRUPT, "peer is recorded as trashed")
        check(was_conflicted or sync.is_discarded, "entry is discarded")
    check(r == FINISHED or r == PUNT, "returns FINISHED or PUNT")


@lemma(props=["C02", "C04", "C03"], configs="sides", raises=["Exception"])
def delete_never_wins_over_pending_create(w: World):
    """L2.1: a deletion is not propagated while another live entry at the same path is a pending creation
    on the other side (a newer edit / recreate): no provider call at all, the delete entry is discarded"""
    mgr = w.mgr
    sync = w.entry("sync")
    other = w.entry("other")
    changed = w.changed
    synced = w.synced
    assume_indexed(w.state, other)
    assume(not other.is_discarded and not other.is_conflicted)
    assume(other[changed].oid is not None)
    assume(other[changed].path == sync[changed].path)
    assume(truthy(other.is_creation(synced)))
    r = mgr.delete_synced(sync, changed, synced)
    check(len(provider_writes()) == 0, "no provider write")
    check(r == FINISHED, "finished")
    check(sync.is_discarded, "the deletion entry is discarded")


@lemma(props=["C02", "C03", "C12", "C04"], configs="sides", raises=["Exception"],
       stubs={"cloudsync.sync.manager:SyncManager.handle_split_conflict": {"results": ["True", "False"]}})
def upload_synced_effects(w: World):
    """L3.1/L3.2: uploading changed content writes only to the synced side, only by upload to the entry's own peer
    oid; on success both sides are recorded as synced (so the echo event finds nothing to do)"""
    mgr = w.mgr
    sync = w.entry("sync")
    changed = w.changed
    synced = w.synced
    assume(sync[changed].temp_file is not None and len(sync[changed].temp_file) > 0)
    # call-site facts (handle_hash_diff asserts the peer oid, download_changed asserts the changed oid)
    assume(sync[synced].oid is not None and sync[changed].oid is not None)
    peer_oid = sync[synced].oid
    new_hash = sync[changed].hash
    new_path = sync[changed].path
    r = mgr.upload_synced(changed, sync)
    ws = provider_writes()
    check(len(ws) <= 1, "at most one provider write (conflict resolution aside)")
    for c in ws:
        check(c.side == synced, "writes only on the synced side")
        check(c.method == "upload" and c.args[0] == peer_oid, "the write is an upload to the peer object")
    if r is True and len(ws) == 1 and ws[0].ok:
        info = ws[0].result
        check(sync[synced].sync_hash == info.hash, "synced side: sync_hash is the uploaded hash")
        check(sync[changed].sync_hash == new_hash, "changed side: sync_hash is its own hash")
        check(sync[changed].sync_path == new_path, "changed side: sync_path is its own path")
        check(sync[synced].sync_path is not None or info.path is None, "synced side has a sync_path")


@lemma(props=["C02", "C03", "C04"], configs="sides")
def handle_corrupt_effects(w: World):
    """L2.4: a corrupt (unreadable) copy is frozen: no provider call, one SYNC_CORRUPT_IGNORED notification, that side
    is marked CORRUPT and synced-as-is (so it is not copied), the other side is marked changed so that the good copy
    is synced over it"""
    mgr = w.mgr
    sync = w.entry("sync")
    side = w.changed
    other = w.synced
    h = sync[side].hash
    pth = sync[side].path
    r = mgr.handle_corrupt(side, sync)
    check(len(provider_writes()) == 0, "no provider write")
    check(r == FINISHED, "finished")
    check(sync[side].exists == CORRUPT, "side is marked corrupt")
    check(sync[side].sync_hash == h and sync[side].sync_path == pth, "corrupt side counts as synced as it is")
    check(truthy(sync[other].changed), "the other side is marked changed")
    ns = notifications()
    check(len(ns) == 1, "exactly one notification")


@lemma(props=["C17", "C14"], configs="sides", fixed_clock=True)
def mark_changed_strictly_increasing(w: World):
    """L17.3: change times never repeat and always increase, whatever the clock returns"""
    state = w.state
    ent = w.entry("ent")
    side = w.changed
    last = state._last_changed_time
    state.mark_changed(side, ent)
    check(ent[side].changed > last, "new change time is later than every earlier one")
    check(state._last_changed_time == ent[side].changed, "and is remembered as the latest")
    check(ent[side].changed >= now(), "never earlier than the clock")
    check(implies(now() > last, ent[side].changed == now()), "equal to the clock when the clock advanced")


@lemma(props=["C17", "C10"], configs="none")
def punt_defers_by_a_bounded_amount(w: World):
    """L17.4: punting raises the priority by exactly one; when that makes it positive each set change flag moves
    later by exactly the side's punt interval (default_sleep/10) -- a bounded deferral"""
    state = w.state
    ent = w.entry("ent")
    p0 = ent.priority
    c0 = ent[0].changed
    c1 = ent[1].changed
    ent.punt()
    check(ent.priority == p0 + 1, "priority + 1")
    if p0 + 1 > 0:
        if c0:
            check(ent[0].changed == c0 + state._punt_secs[0], "local change time deferred by punt_secs")
        else:
            check(ent[0].changed == c0, "unset local change flag stays unset")
        if c1:
            check(ent[1].changed == c1 + state._punt_secs[1], "remote change time deferred by punt_secs")
        else:
            check(ent[1].changed == c1, "unset remote change flag stays unset")
    else:
        check(ent[0].changed == c0 and ent[1].changed == c1, "no deferral while priority stays <= 0")
    check(state._punt_secs[0] > 0 and state._punt_secs[1] > 0, "punt interval is positive")


@lemma(props=["C18", "C10"], configs="none")
def backoff_formula(w: World, p: float):
    """L18.1: after k consecutive failures the wait is min(max, min*mult^(k-1)).  Induction over k with the ghost
    p = mult^(k-1): base (in_backoff == 0 -> min(max, min)) and step."""
    r = w.runnable()
    assume(0 < r.min_backoff and r.min_backoff <= r.max_backoff and r.mult_backoff >= 1)
    assume(p >= 1)
    b = r.in_backoff
    assume(b == 0 or b == min(r.max_backoff, r.min_backoff * p))
    r._Runnable__increment_backoff()
    if b == 0:
        check(r.in_backoff == min(r.max_backoff, r.min_backoff), "base: first failure waits min(max, min)")
    else:
        check(r.in_backoff == min(r.max_backoff, r.min_backoff * p * r.mult_backoff), "step: next failure multiplies by mult, capped at max")
    check(r.in_backoff > 0 and r.in_backoff <= r.max_backoff, "bounded: 0 < wait <= max")
    check(r.in_backoff >= b, "never decreases on failure")


@lemma(props=["C10", "C18"], configs="none")
def notify_from_exception_table(w: World):
    """L10.1: exactly the matching notification kind for each cloud exception class (whole lattice)"""
    n = w.notification_manager()
    e = w.cloud_exception()
    from cloudsync.notification import NotificationType, SourceEnum
    import cloudsync.exceptions as ex
    n.notify_from_exception(SourceEnum.SYNC, e, "/p")
    puts = calls("put")
    if isinstance(e, ex.CloudDisconnectedError):
        want = NotificationType.DISCONNECTED_ERROR
    elif isinstance(e, ex.CloudOutOfSpaceError):
        want = NotificationType.OUT_OF_SPACE_ERROR
    elif isinstance(e, ex.CloudFileNameError):
        want = NotificationType.FILE_NAME_ERROR
    elif isinstance(e, ex.CloudNamespaceError):
        want = NotificationType.NAMESPACE_ERROR
    elif isinstance(e, ex.CloudRootMissingError):
        want = NotificationType.ROOT_MISSING_ERROR
    elif isinstance(e, ex.CloudTemporaryError):
        want = NotificationType.TEMPORARY_ERROR
    else:
        want = None
    if want is None:
        check(len(puts) == 0, "no notification for other classes")
    else:
        check(len(puts) == 1, "exactly one notification")
        check(puts[0].args[0].ntype == want, "of the matching kind")
        check(puts[0].args[0].source == SourceEnum.SYNC and puts[0].args[0].path == "/p", "with the given source and path")


EMBRACE_STUBS = {
    "cloudsync.sync.manager:SyncManager.delete_synced": {},
    "cloudsync.sync.manager:SyncManager.handle_changed_is_missing": {},
    "cloudsync.sync.manager:SyncManager.handle_path_change_or_creation": {},
    "cloudsync.sync.manager:SyncManager.handle_hash_diff": {},
    "cloudsync.sync.manager:SyncManager.check_rename_is_delete_create": {"results": ["None", "FINISHED"], "raises": False},
    "cloudsync.sync.manager:SyncManager._get_parent_conflict": {"results": ["None", "entry"], "raises": False, "havoc": False},
}


@lemma(props=["C02", "C03", "C12", "C04"], configs="sides", raises=["Exception"],
       stubs={"cloudsync.sync.manager:SyncManager.delete_synced": {},
              "cloudsync.sync.manager:SyncManager.handle_changed_is_missing": {},
              "cloudsync.sync.manager:SyncManager.handle_path_change_or_creation": {},
              "cloudsync.sync.manager:SyncManager.handle_hash_diff": {},
              "cloudsync.sync.manager:SyncManager.check_rename_is_delete_create": {"results": ["None", "FINISHED"], "raises": False, "havoc": False},
              "cloudsync.sync.manager:SyncManager._get_parent_conflict": {"results": ["None", "entry"], "raises": False, "havoc": False}})
def embrace_change_dispatch(w: World):
    """Dispatch guards of embrace_change (callees are verified by their own lemmas and stubbed here):
    it makes no provider write itself; a peer is deleted only for a trashed source or for an entry that moved out of
    the root after having been synced; a delete never wins over a pending creation on the other side (L2.1);
    a path the translate function declines is left alone on both sides (L12.3)."""
    mgr = w.mgr
    sync = w.entry("sync")
    changed = w.changed
    synced = w.synced
    pre_exists = sync[changed].exists
    pre_path = sync[changed].path
    pre_sync_path = sync[changed].sync_path
    pre_discarded = sync.is_discarded
    tp = mgr.translate(synced, pre_path)
    outside_root = not truthy(w.providers[changed].is_subpath_of_root(pre_path))
    other_is_new_file = truthy(sync.is_creation(synced)) and sync[synced].otype == FILE and truthy(sync[synced].changed)
    r = mgr.embrace_change(sync, changed, synced)
    check(len(provider_writes()) == 0, "embrace_change itself makes no provider write")
    dels = calls("delete_synced")
    has_path_or_exists = truthy(pre_path) or pre_exists == EXISTS
    moved_out = has_path_or_exists and tp is None and truthy(pre_sync_path) and outside_root
    if len(dels) > 0:
        check(moved_out or pre_exists == TRASHED, "a deletion is propagated only for a trashed source or an entry moved out of the root")
        check(len(dels) == 1 and dels[0].args[1] == changed and dels[0].args[2] == synced, "one deletion, from changed to synced")
    if has_path_or_exists and tp is None and not moved_out:
        check(len(dels) == 0 and len(calls("handle_hash_diff")) == 0 and len(calls("handle_path_change_or_creation")) == 0,
              "a path the translation declines is not propagated in any way")
        check(r == FINISHED and sync.is_discarded, "it is set aside as irrelevant")
    if pre_exists == TRASHED and other_is_new_file and not pre_discarded and not moved_out and (tp is not None or not has_path_or_exists):
        check(len(dels) == 0, "a delete does not win over a pending creation on the other side")
    # what the step reports is what the handler it delegated to reported (FINISHED = done, PUNT = try again later)
    hd = calls("handle_hash_diff")
    hp = calls("handle_path_change_or_creation")
    hm = calls("handle_changed_is_missing")
    if len(dels) == 1:
        check(r == dels[0].result, "a propagated deletion's outcome is the step's outcome")
    if len(hm) == 1:
        check(r == hm[0].result, "the missing-source handler's outcome is the step's outcome")
    if len(hd) == 1:
        check(r == hd[0].result, "the content handler's outcome is the step's outcome")
    if len(hp) == 1 and hp[0].result == PUNT:
        check(r == PUNT, "a deferred path change or creation defers the step")
    pc = calls("_get_parent_conflict")
    if len(pc) == 1 and pc[0].result is not None:
        check(r == REQUEUE and len(dels) + len(hm) + len(hd) + len(hp) == 0, "a parent that must go first: requeue, nothing is mirrored now")
    if len(pc) == 1 and pc[0].result is None and len(dels) + len(hm) + len(hd) + len(hp) == 0:
        check(r != REQUEUE, "no parent in the way: the step itself never requeues")
    if len(dels) + len(hm) + len(hd) + len(hp) == 0 and len(calls("check_rename_is_delete_create")) == 0:
        check(r == FINISHED or (r == REQUEUE and len(calls("_get_parent_conflict")) == 1), "nothing to mirror: finished (or requeued behind a parent)")
    if len(dels) + len(hm) + len(hd) + len(hp) == 0 and len(calls("check_rename_is_delete_create")) == 1 and calls("check_rename_is_delete_create")[0].result is None:
        check(r == FINISHED, "nothing changed: finished")


@lemma(props=["C07", "C10", "C08"], configs="none", raises=["_BackoffError"],
       stubs={"cloudsync.sync.manager:SyncManager.pre_sync": {"results": ["True", "False"], "havoc": False},
              "cloudsync.sync.manager:SyncManager.sync": {"results": ["True", "False"], "havoc": False}})
def sync_one_entry_classification(w: World):
    """L7.1 / L10.2: one sync step ends with a storage commit after everything else; a fault of any class never escapes
    as anything but a back-off request; temporary-class faults are reported and the entry deferred"""
    mgr = w.mgr
    sync = w.entry("sync")
    p0 = sync.priority
    try:
        mgr._sync_one_entry(sync)
        raised = False
    except BaseException:
        raised = True
    names = effect_names()
    n_commit = len(calls("storage_commit"))
    if not raised:
        check(n_commit == 1 and names[len(names) - 1] == "storage_commit", "normal completion: commit is the last effect")
        check(sync.priority == p0, "not deferred")
        check(len(calls("notify_from_exception")) == 0, "nothing reported")
    else:
        check(sync.priority == p0 + 1, "a failing entry is deferred (priority + 1)")
        check(n_commit <= 1, "at most one commit")
        if n_commit == 1:
            check(names[len(names) - 1] == "storage_commit", "commit is the last effect")


@lemma(props=["C17", "C11"], configs="sides", raises=["AssertionError"],
       inline=["cloudsync.sync.state:SyncState._change_path"],
       stubs={"cloudsync.sync.state:SyncState._update_kids": {"results": ["None"], "raises": False, "havoc": False}})
def path_change_assigns_application_priority(w: World, path: str):
    """L17.5: whenever an entry's path changes, its priority becomes what the application's prioritize(side, path)
    says for the new path (higher or lower), and the path is recorded"""
    state = w.state
    ent = w.entry("ent")
    side = w.changed
    assume(len(path) > 0 and path != ent[side].path)
    assume(ent[side].oid is not None)
    state._change_path(side, ent, path, w.providers[side])
    check(ent[side]._path == path, "the new path is recorded")
    check(ent.priority == state.prioritize(side, path), "priority is the application's priority for the new path")


@lemma(props=["C18", "C10"], configs="none")
def service_loop_iteration(w: World, sleep: float):
    """L18.2: every iteration of Runnable.run, from any loop state: no exception of the work function escapes; the
    wait that follows is the current back-off if positive else the ordinary sleep; a failure grows the back-off by the
    formula, a successful call that did something resets it, a no-op success leaves it; `do` is not called once a
    stop was requested; cleanup (done) runs iff the stop was final."""
    r = w.runnable()
    assume(0 < r.min_backoff and r.min_backoff <= r.max_backoff and r.mult_backoff >= 1)
    assume(r.in_backoff >= 0 and sleep > 0)
    stop_requested_before = r._Runnable__stopping or r._Runnable__shutdown
    r.run(sleep=sleep)
    check(r._Runnable__stopped is True, "the service reports stopped when run returns")
    check(len(calls("done")) == (1 if r._Runnable__shutdown else 0), "cleanup runs exactly once iff the stop was final")
    dos = calls("do")
    sleeps = calls("interruptable_sleep")
    if not stop_requested_before:
        check(len(dos) >= 1, "a service that was not asked to stop calls its work function")
    # effects of the (arbitrary) iteration appear twice in the log: they may repeat any number of times
    if len(dos) > 0:
        b = dos[0].args[0]
        kind = dos[0].args[1]
        if kind == "did-something":
            want = 0
        elif kind == "nothing-happened":
            want = b
        else:
            want = min(r.max_backoff, max(b * r.mult_backoff, r.min_backoff))
        if len(sleeps) > 0:
            check(sleeps[0].args[0] == (want if want > 0 else sleep), "the wait after a call follows the back-off law")


@lemma(props=["C05", "C02", "C07"], configs="none", raises=["Exception"],
       stubs={"cloudsync.sync.manager:SyncManager.resolve_conflict": {"results": ["None"], "havoc": True},
              "cloudsync.sync.manager:SyncManager.download_changed": {"results": ["True", "False"], "havoc": False}})
def split_conflict_same_content_merges(w: World):
    """L2.6 / L5.3: when both sides changed, the deferred side's bytes are hashed with the *other* side's hash function
    and compared with that side's recorded hash; equal content is merged silently (no resolver, no provider write,
    one entry discarded); different content goes to the resolver exactly once"""
    mgr = w.mgr
    defer_ent = w.entry("defer")
    replace_ent = w.entry("replace")
    defer_side = 1
    replace_side = 0
    assume(defer_ent[defer_side].otype == FILE)
    assume(defer_ent[defer_side].temp_file is not None and len(defer_ent[defer_side].temp_file) > 0)
    assume(replace_ent[replace_side].oid is not None)
    want_hash = replace_ent[replace_side].hash
    r = mgr.handle_split_conflict(defer_ent, defer_side, replace_ent, replace_side)
    hs = [c for c in provider_calls() if c.method == "hash_data"]
    check(len(provider_writes()) == 0, "handle_split_conflict itself writes nothing to a provider")
    for c in hs:
        check(c.side == replace_side, "content is hashed with the hash function of the side it is compared with")
    res = calls("resolve_conflict")
    if len(hs) == 1 and hs[0].ok and hs[0].result == want_hash:
        check(len(res) == 0, "identical content: the resolver is not called")
        check(r is True and replace_ent.is_discarded, "identical content: merged, the duplicate entry is discarded")
        check(defer_ent[defer_side].sync_hash == defer_ent[defer_side].hash, "merged entry is recorded as synced (deferred side)")
    if len(res) > 0:
        check(len(res) == 1, "the resolver path is taken at most once")
        check(len(hs) == 0 or not hs[0].ok or hs[0].result != want_hash, "the resolver is only reached for different content")


@lemma(props=["C14", "C10", "C02"], configs="none", raises=["Exception"],
       stubs={"cloudsync.sync.manager:SyncManager.check_revivify": {"results": ["None"], "raises": False, "havoc": False},
              "cloudsync.sync.manager:SyncManager.finished": {"results": ["None"], "raises": False, "havoc": False}})
def pre_sync_rereads_both_sides(w: World):
    """L14.3: before an entry is acted on, the truth is re-read from *both* providers: whenever pre_sync lets the
    entry through (returns False) the last thing it did is a full get_latest of the entry, in backoff or not"""
    mgr = w.mgr
    sync = w.entry("sync")
    r = mgr.pre_sync(sync)
    gl = calls("get_latest")
    if r is False:
        check(len(gl) >= 1, "get_latest was called")
        last = gl[len(gl) - 1]
        check(last.args[0] is sync, "on the entry being synced")
        check(len(last.args[1]) == 2 and last.args[1][0] == 0 and last.args[1][1] == 1, "for both sides")
    else:
        check(sync.is_discarded, "only a discarded entry is finished without syncing")
        check(len(provider_writes()) == 0, "without any provider write")


@lemma(props=["C02", "C14", "C10"], configs="sides", raises=["Exception"], fixed_clock=True)
def get_latest_flags_unseen_changes(w: World):
    """L14.3: re-reading a side from its provider records what is there now -- and an unseen content or path change
    marks that side changed (so that a delete on the other side cannot win over it); a vanished object becomes a
    tombstone; the oid never changes"""
    state = w.state
    ent = w.entry("ent")
    side = w.changed
    h0 = ent[side].hash
    p0 = ent[side].path
    c0 = ent[side].changed
    oid0 = ent[side].oid
    ig0 = ent.ignored
    ex0 = ent[side].exists
    state.unconditionally_get_latest(ent, side)
    check(ent[side].oid == oid0, "the oid is not changed by a re-read")
    infos = [c for c in provider_calls() if c.method == "info_oid"]
    check(len(provider_writes()) == 0, "re-reading writes nothing")
    if oid0 is None:
        check(len(infos) == 0, "no provider call without an oid")
    if len(infos) == 1 and infos[0].ok and infos[0].result is not None:
        info = infos[0].result
        if info.hash != h0 and ig0 == IgnoreReason.NONE and not c0:
            check(truthy(ent[side].changed), "an unseen content change marks the side changed")
        if info.hash is not None:
            check(ent[side].hash == info.hash, "the provider's hash is recorded")
        check(ent[side].exists == EXISTS or ent[side].exists == CORRUPT, "the object exists (or stays corrupt)")
        check(ent[side].size == info.size and ent[side].mtime == info.mtime, "size and mtime are recorded")
    if len(infos) == 1 and infos[0].ok and infos[0].result is None:
        check(ent[side].exists == TRASHED or ent[side].exists == MISSING or ent[side].exists == CORRUPT, "a vanished object becomes a tombstone")
        check(ent[side].hash == h0 and ent[side].path == p0, "hash and path of a vanished object are kept")


@lemma(props=["C04", "C03", "C11", "C02"], configs="sides", raises=["Exception"], opaque=["nps"])
def children_follow_a_renamed_folder(w: World, prior: str, path: str, rel: str):
    """L4.4: when a folder's path changes, each child keeps its position relative to the folder: its path becomes
    join(new folder path, relative path) and its last-synced path is re-rooted the same way"""
    state = w.state
    folder = w.entry("folder")
    kid = w.entry("kid")
    side = w.changed
    prov = w.providers[side]
    assume(folder[side].otype == DIRECTORY and prior != path and len(rel) > 0)
    assume(kid[side].oid is not None and folder[side].oid is not None)
    assume(not prov.oid_is_path)
    set_kids(state, kid, rel)
    sp0 = kid[side].sync_path
    state._update_kids(folder, side, prior, path, prov)
    check(kid[side].path == prov.join(path, rel), "the child's path is its relative path under the folder's new path")
    if sp0:
        srel = prov.is_subpath(prior, sp0)
        if srel:
            check(kid[side].sync_path == prov.join(path, srel), "the child's last-synced path is re-rooted with its own relative part")
        else:
            check(kid[side].sync_path == sp0, "a last-synced path outside the folder is left alone")
    else:
        check(kid[side].sync_path == sp0, "no last-synced path: nothing to re-root")
    check(len(provider_writes()) == 0, "no provider write")



@lemma(props=["C04", "C02", "C03"], configs="sides", raises=["Exception"])
def non_empty_folder_delete_waits(w: World):
    """L4.5: a folder whose deletion was refused because it is not empty is only reported finished after it was
    punted at least once (priority > 0) and no known child still needs syncing; the engine itself deletes nothing here"""
    mgr = w.mgr
    sync = w.entry("sync")
    changed = w.changed
    synced = w.synced
    p0 = sync.priority
    r = mgr._handle_dir_delete_not_empty(sync, changed, synced)
    check(len(provider_writes()) == 0, "no provider write")
    check(r == FINISHED or r == PUNT, "returns FINISHED or PUNT")
    if r == FINISHED:
        check(p0 > 0, "finished only after having been punted at least once")
    for c in provider_calls():
        check(c.side == synced, "only the synced side is listed")


@lemma(props=["C05", "C02"], configs="none", raises=["CloudTemporaryError"])
def safe_call_resolver_table(w: World):
    """L5.1: decision table of the resolver wrapper.  Directory-vs-file: the directory handle wins with keep=True and
    the resolver is not called.  Otherwise the resolver is called exactly once with the two handles; a well-formed
    answer is returned unchanged; None / a non-tuple / a wrong-length tuple / a non-file-like first element / any
    non-temporary exception fall back to (remote handle, keep=True); CloudTemporaryError is re-raised."""
    mgr = w.mgr
    f0 = w.resolve_file("f0", 0)
    f1 = w.resolve_file("f1", 1)
    fhs = [f0, f1]
    ret = mgr._SyncManager__safe_call_resolver(fhs)
    beh = resolver_behaviour()
    rc = calls("resolve_conflict")
    check(len(rc) <= 1, "the resolver is called at most once")
    dir_vs_file = (f0.otype == DIRECTORY or f1.otype == DIRECTORY) and f0.otype != f1.otype
    if dir_vs_file:
        check(len(rc) == 0, "directory against file: the resolver is not called")
        check(ret[0] is (f0 if f0.otype == DIRECTORY else f1) and ret[1] is True, "the directory wins and the file is kept")
    else:
        check(len(rc) == 1 and rc[0].args[0] is f0 and rc[0].args[1] is f1, "the resolver gets the two sides' handles, in order")
        if beh == "pick0":
            check(ret[0] is f0, "picked handle 0 is returned unchanged")
        elif beh == "pick1":
            check(ret[0] is f1, "picked handle 1 is returned unchanged")
        elif beh == "merged":
            check(ret[0] is not f0 and ret[0] is not f1, "merged data is returned unchanged")
        else:
            check(ret[0] is f1 and ret[1] is True, "no usable answer: the remote version wins and the local one is kept")


@lemma(props=["C03", "C05", "C02", "C04"], configs="none", raises=["Exception"],
       stubs={"cloudsync.sync.manager:SyncManager.embrace_change": {},
              "cloudsync.sync.manager:SyncManager.handle_hash_conflict": {"results": ["None"]},
              "cloudsync.sync.manager:SyncManager.path_conflict": {"results": ["False"], "raises": False, "havoc": False},
              "cloudsync.sync.manager:SyncManager.finished": {"results": ["None"], "raises": False, "havoc": False}})
def sync_dispatch(w: World):
    """L5.3 / L3.3: sync() hands an entry to conflict handling exactly when both sides carry unsynchronised content
    (hash_conflict), and otherwise never embraces a side that is flagged changed but has nothing to sync (no echo):
    that side's flag is simply cleared"""
    mgr = w.mgr
    sync = w.entry("sync")
    conflict = truthy(sync.hash_conflict())
    ns0 = truthy(sync[0].needs_sync())
    ns1 = truthy(sync[1].needs_sync())
    corrupt0 = sync[0].is_corrupt
    corrupt1 = sync[1].is_corrupt
    r = mgr.sync(sync)
    hc = calls("handle_hash_conflict")
    em = calls("embrace_change")
    check(len(provider_writes()) == 0, "sync itself writes nothing to a provider")
    if conflict:
        check(len(hc) == 1 and len(em) == 0, "different unsynchronised content on both sides goes to conflict handling, once")
    else:
        check(len(hc) == 0, "no conflict handling without a hash conflict")
        check(len(em) <= 1, "at most one side is embraced per step")
        for c in em:
            side = c.args[1]
            check(c.args[2] == 1 - side, "a change is embraced towards the other side")
            check((side == 0 and (ns0 or corrupt1)) or (side == 1 and (ns1 or corrupt0)),
                  "a side is embraced only if it needs syncing (or the other side is corrupt)")


def _eligible(e, now_, age):
    return e.priority < 0 or (truthy(e[0].changed) and e[0].changed <= now_ - age) or (truthy(e[1].changed) and e[1].changed <= now_ - age)


def _sort_key(e):
    return (e.priority, max(e[0].changed or 0, e[1].changed or 0))


@lemma(props=["C17"], configs="none", raises=["Exception"], fixed_clock=True)
def change_returns_only_aged_entries(w: World, age: float):
    """L17.1: the entry handed out for syncing is a member of the pending set and is eligible: its priority is negative
    ('immediately') or one of its change flags is at least `age` old according to the clock read inside the call;
    with age == 0 every flagged entry whose flag is not in the future is eligible"""
    state = w.state
    assume(age >= 0)
    r = state.change(age)
    if r is not None:
        check(in_changeset(state, r), "the entry comes from the pending set")
        check(_eligible(r, now(), age), "and is eligible (aged, or negative priority)")


@lemma(props=["C17"], configs="none", raises=["Exception"], fixed_clock=True)
def change_prefers_lower_priority_then_older(w: World, age: float):
    """L17.2: among eligible pending entries the one handed out has the smallest (priority, newest change time):
    no other eligible entry of the pending set sorts strictly before it; and if some pending entry is eligible the
    call does not come back empty-handed"""
    state = w.state
    other = w.entry("other")
    assume(age >= 0)
    assume(in_changeset(state, other))
    assume(truthy(other[0].path) and truthy(other[1].path))      # no path fill-in for this entry
    k_other = _sort_key(other)
    el_other = _eligible(other, now(), age)
    r = state.change(age)
    if el_other:
        check(r is not None, "an eligible pending entry exists: something is handed out")
        if r is not other:
            check(not (k_other < _sort_key(r)), "nothing eligible sorts strictly before the entry handed out")


@lemma(props=["C17", "C15", "C18"], configs="none", raises=["Exception"],
       stubs={"cloudsync.sync.manager:SyncManager._validate_provider_roots": {"results": ["None"], "havoc": False},
              "cloudsync.sync.state:SyncState.change": {"results": ["None", "entry"], "raises": False, "havoc": False},
              "cloudsync.sync.manager:SyncManager._sync_one_entry": {"results": ["True", "False"], "havoc": True},
              "cloudsync.runnable:Runnable.nothing_happened": {"results": ["None"], "raises": False, "havoc": False}})
def sync_manager_step(w: World):
    """L17.6 / L15.2: one step of the sync manager: the next entry is asked of the scheduler exactly once, with the
    manager's aging, and it is the entry that is synced -- choosing and syncing are one critical section under the state
    lock, which is released afterwards even if the sync raises; with nothing eligible the step sleeps for the aging time
    instead; the step reports 'nothing happened' exactly when no sync reported progress"""
    mgr = w.mgr
    try:
        mgr.do()
        raised = False
    except Exception:
        raised = True
    ch = calls("change")
    so = calls("_sync_one_entry")
    check(lock_held() == 0, "the state lock is released afterwards")
    if len(calls("_validate_provider_roots")) == 1 and len(ch) > 0:
        check(len(ch) == 1 and ch[0].args[0] == mgr.aging and ch[0].held >= 1, "the scheduler is asked once, with the aging, under the lock")
        if ch[0].result is None:
            check(len(so) == 0, "nothing eligible: nothing is synced")
            if not raised:
                check(len(calls("sleep")) == 1 and calls("sleep")[0].args[0] == mgr.aging, "the step sleeps for the aging time")
                check(len(calls("nothing_happened")) == 1, "and reports that nothing happened")
        else:
            check(len(so) == 1 and so[0].args[0] is ch[0].result and so[0].held >= 1,
                  "the entry handed out is the one synced, in the same critical section")
            if not raised:
                check(len(calls("sleep")) == 0, "no sleep after work")
                check((len(calls("nothing_happened")) == 1) == (so[0].result is False), "'nothing happened' exactly when the sync reported no progress")


@lemma(props=["C05", "C02"], configs="resolver_cases", raises=["Exception"],
       stubs={"cloudsync.sync.manager:SyncManager._resolve_rename": {"results": ["True", "False"], "havoc": True},
              "cloudsync.sync.manager:SyncManager._SyncManager__resolver_merge_upload": {"results": ["None"], "havoc": True}})
def resolve_conflict_applies_the_answer(w: World):
    """L5.2: applying the resolver's answer.  One side's handle returned: the *other* side is the loser -- with keep it is
    renamed out of the way (conflict rename), never overwritten; without keep it is overwritten by exactly one upload of
    the winning content to the loser's own object; the winner's side is never written.  No usable answer (None, exception): the remote
    version wins and the local one is renamed aside.  (The merged-data answer, which replaces both sides, is generated as a
    separate case and is not under contract: its path count exceeds the generation budget.)"""
    mgr = w.mgr
    e0 = w.entry("e0")
    e1 = w.entry("e1")
    assume_indexed(w.state, e0)
    assume_indexed(w.state, e1)
    s0 = e0[0]
    s1 = e1[1]
    assume(s0.oid is not None and s1.oid is not None)
    assume(s0.otype == FILE and s1.otype == FILE)
    oid0 = s0.oid
    oid1 = s1.oid
    mgr.resolve_conflict((s0, s1))
    beh = resolver_behaviour()
    ws = provider_writes()
    rn = calls("_resolve_rename")
    mu = calls("_SyncManager__resolver_merge_upload")
    check(len(calls("resolve_conflict")) == 1, "the resolver is called exactly once")
    check(len(mu) == 0, "one side's handle: no merge upload")
    loser = 1 if beh == "pick0" else 0
    check(len(ws) + len(rn) == 1, "exactly one action on the loser")
    for c in ws:
        check(c.side == loser and c.method == "upload" and c.args[0] == (oid1 if loser == 1 else oid0),
              "without keep: one upload over the loser's own object")
    for c in rn:
        check(c.args[0] is (s1 if loser == 1 else s0), "with keep: the loser is renamed out of the way")
    if beh != "pick0" and beh != "pick1":
        check(len(ws) == 0 and len(rn) == 1, "no usable answer: the local version is kept aside, nothing is overwritten")


@lemma(props=["C18"], configs="none", raises=["TimeoutError"],
       stubs={"cloudsync.runnable:Runnable.wake": {"results": ["None"], "raises": False, "havoc": False}})
def stop_waits_for_the_service_thread(w: World, forever: bool, wait: bool, has_thread: bool):
    """L18.4 (sequential part of stop): a stop request always raises the stopping flag, records whether it is final and
    wakes the loop; when the service has a thread and the caller is another thread, `wait=True` joins that thread --
    whether or not the loop has already set up or torn down its wake-up event -- so that when stop() returns the loop and
    its cleanup are over; `wait=False` never blocks"""
    r = w.runnable()
    if has_thread:
        r._Runnable__thread = w.thread()
    r.stop(forever=forever, wait=wait)
    check(r._Runnable__stopping is True, "the stopping flag is raised")
    check(r._Runnable__shutdown == forever, "finality is recorded")
    check(len(calls("wake")) == 1, "the loop is woken")
    joins = calls("join")
    check(len(joins) == (1 if (has_thread and wait) else 0), "the service thread is joined exactly when there is one and the caller asked to wait")


@lemma(props=["C12", "C04", "C02"], configs="none", raises=["Exception"])
def path_conflict_definition(w: World):
    """L12.6: the 'both sides renamed the same synced object to different places' test that makes sync() split an entry
    instead of mirroring one of the renames, stated independently of its body: both sides have a path, the object was
    synced (both last-synced paths known, and both last-synced hashes known or both sides are folders), it exists on both
    sides, the remote path is not simply the translation of the local one, each side's path differs from its last-synced
    path, and it is not a temporary rename made by the engine itself.  Folders count exactly like files."""
    mgr = w.mgr
    e = w.entry("e")
    l, r = e[0], e[1]
    have_paths = truthy(l.path) and truthy(r.path)
    synced = ((truthy(l.sync_hash) and truthy(r.sync_hash)) or (l.otype == DIRECTORY and r.otype == DIRECTORY)) \
        and truthy(l.sync_path) and truthy(r.sync_path)
    both_exist = l.exists == EXISTS and r.exists == EXISTS
    got = truthy(mgr.path_conflict(e))
    if not (have_paths and synced and both_exist):
        check(not got, "no conflict unless both sides are named, were synced and exist")
    else:
        same_place = r.path == mgr.translate(1, l.path)
        moved_l = not truthy(w.providers[0].paths_match(l.path, l.sync_path, for_display=True))
        moved_r = not truthy(w.providers[1].paths_match(r.path, r.sync_path, for_display=True))
        check(got == ((not same_place) and moved_l and moved_r and not e.is_temp_rename),
              "a conflict exactly when both sides moved it, to places that do not correspond, and not by the engine's own temporary rename")
