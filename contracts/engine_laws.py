"""Function-level contracts of the sync engine (cloudsync/sync/manager.py, state.py).

`w` is a symbolic world: two providers that are *arbitrary* implementations of the Provider API
(any call may return any well-typed value or raise any cloud exception), a SyncState whose index
maintenance is replaced by the contracts proved in contracts/state_index.py, and entries whose
fields are arbitrary.  `w.changed` / `w.synced` enumerate both directions.
"""
from pyvc.dsl import *   # noqa
from cloudsync.sync.state import TRASHED, MISSING, EXISTS, UNKNOWN, LIKELY_TRASHED, CORRUPT
from cloudsync.sync.manager import FINISHED, PUNT, REQUEUE
from cloudsync.types import DIRECTORY, FILE, IgnoreReason


@lemma(props=["C02", "C03"], configs="sides")
def hash_diff_never_uploads_over_deleted_peer(w: World):
    """L2.2: new content is never uploaded over a deleted peer; the upload becomes a create"""
    mgr = w.mgr
    sync = w.entry("sync")
    changed = w.changed
    synced = w.synced
    assume(sync[changed].path is not None)
    assume(sync[synced].exists in (TRASHED, MISSING) or sync[synced].oid is None)
    r = mgr.handle_hash_diff(sync, changed, synced)
    check(len(provider_calls()) == 0, "no provider call is made")
    check(r == PUNT, "the entry is punted")
    check(sync[synced].sync_path is None and sync[synced].sync_hash is None, "synced side forgets its sync markers")
    check(sync[changed].sync_path is None and sync[changed].sync_hash is None, "changed side forgets its sync markers")
    check(sync[synced].oid is None and sync[synced].path is None and sync[synced].hash is None, "synced side is cleared")
    check(sync[synced].exists == UNKNOWN or (sync[synced].exists == CORRUPT and sync[synced]._saved_exists == UNKNOWN),
          "synced side existence is unknown again (or corrupt over unknown)")


@lemma(props=["C02", "C03", "C04", "C12"], configs="sides", raises=["Exception"])
def delete_synced_effects(w: World):
    """L2.1/L4.1/L3.1: propagating a deletion issues at most one provider write, a delete of the peer object
    on the synced side; afterwards the peer is tombstoned and the entry discarded"""
    mgr = w.mgr
    sync = w.entry("sync")
    changed = w.changed
    synced = w.synced
    peer_oid = sync[synced].oid
    was_conflicted = sync.is_conflicted
    r = mgr.delete_synced(sync, changed, synced)
    ws = provider_writes()
    check(len(ws) <= 1, "at most one provider write")
    for c in ws:
        check(c.method == "delete", "the only write is a delete")
        check(c.side == synced, "on the synced side, never on the side where the deletion originated")
        check(c.args[0] == peer_oid and peer_oid is not None, "of the entry's own peer object")
    if r == FINISHED and len(ws) == 1 and ws[0].ok:
        check(sync[synced].exists == TRASHED or sync[synced].exists == CORRUPT, "peer is recorded as trashed")
        check(was_conflicted or sync.is_discarded, "entry is discarded")
    check(r == FINISHED or r == PUNT, "returns FINISHED or PUNT")


@lemma(props=["C02", "C04"], configs="sides", raises=["Exception"])
def delete_never_wins_over_pending_create(w: World):
    """L2.1: a deletion is not propagated while another live entry at the same path is a pending creation
    on the other side (a newer edit / recreate): no provider call at all, the delete entry is discarded"""
    mgr = w.mgr
    sync = w.entry("sync")
    other = w.entry("other")
    changed = w.changed
    synced = w.synced
    assume_indexed(w.state, other)
    assume(not other.is_discarded and not other.is_conflicted)
    assume(other[changed].oid is not None)
    assume(other[changed].path == sync[changed].path)
    assume(truthy(other.is_creation(synced)))
    r = mgr.delete_synced(sync, changed, synced)
    check(len(provider_writes()) == 0, "no provider write")
    check(r == FINISHED, "finished")
    check(sync.is_discarded, "the deletion entry is discarded")


@lemma(props=["C02", "C03", "C12"], configs="sides", raises=["Exception"],
       stubs={"cloudsync.sync.manager:SyncManager.handle_split_conflict": {"results": ["True", "False"]}})
def upload_synced_effects(w: World):
    """L3.1/L3.2: uploading changed content writes only to the synced side, only by upload to the entry's own peer
    oid; on success both sides are recorded as synced (so the echo event finds nothing to do)"""
    mgr = w.mgr
    sync = w.entry("sync")
    changed = w.changed
    synced = w.synced
    assume(sync[changed].temp_file is not None and len(sync[changed].temp_file) > 0)
    # call-site facts (handle_hash_diff asserts the peer oid, download_changed asserts the changed oid)
    assume(sync[synced].oid is not None and sync[changed].oid is not None)
    peer_oid = sync[synced].oid
    new_hash = sync[changed].hash
    new_path = sync[changed].path
    r = mgr.upload_synced(changed, sync)
    ws = provider_writes()
    check(len(ws) <= 1, "at most one provider write (conflict resolution aside)")
    for c in ws:
        check(c.side == synced, "writes only on the synced side")
        check(c.method == "upload" and c.args[0] == peer_oid, "the write is an upload to the peer object")
    if r is True and len(ws) == 1 and ws[0].ok:
        info = ws[0].result
        check(sync[synced].sync_hash == info.hash, "synced side: sync_hash is the uploaded hash")
        check(sync[changed].sync_hash == new_hash, "changed side: sync_hash is its own hash")
        check(sync[changed].sync_path == new_path, "changed side: sync_path is its own path")
        check(sync[synced].sync_path is not None or info.path is None, "synced side has a sync_path")
