"""C19 (deductive part): contracts of the non-recursive id-map maintenance of HierarchicalCache
(cloudsync/hierarchical_cache.py).  The cache's id map is an open map (arbitrary content), nodes are arbitrary;
the recursive tree operations (delete, rename, __insert_node, _walk) are callees here -- their composition is
covered by the bounded stand-in contracts/bounded_cache.py, never counted as proved."""
from pyvc.dsl import *   # noqa
from cloudsync.types import DIRECTORY, FILE



@lemma(props=["C19"], configs="none", raises=["AssertionError"],
       stubs={"cloudsync.hierarchical_cache:HierarchicalCache.delete": {"results": ["None"]},
              "cloudsync.hierarchical_cache:HierarchicalCache._HierarchicalCache__make_node": {"results": ["None"]},
              "cloudsync.hierarchical_cache:Node.full_path": {"results": ["str"]}})
def set_oid_evicts_the_previous_holder_then_binds(c: Cache, oid: str):
    """L19.1: giving a node an id (_set_oid): the same id again changes nothing; otherwise whatever held the id is
    evicted first (one delete by that id, before anything else), then an id-less node takes the id and the id map leads
    to it -- no id is held by two nodes -- while a node that already carries another id is never re-labelled in place:
    it is replaced by a new node of the same type at the same path with the new id"""
    n = cache_node(c, "n")
    had = n.oid
    typ = n.type
    c._set_oid(n, oid)
    d = calls("delete")
    m = calls("_HierarchicalCache__make_node")
    if had == oid:
        check(len(d) == 0 and len(m) == 0, "same id: nothing is evicted, nothing is made")
        check(n.oid == had, "same id: the node keeps it")
    else:
        check(len(d) == 1 and d[0].kw_oid == oid, "whatever held the id is evicted, once, by that id")
        if had is None:
            check(len(m) == 0, "an id-less node is labelled in place")
            check(n.oid == oid, "the node carries the id")
            check(id_map(c, oid) is n, "the id map leads to the node")
        else:
            check(len(m) == 1 and m[0].args[0] == typ and m[0].args[2] == oid, "a node with another id is replaced by a new node of its type with the new id")
            check(n.oid == had, "the old node is not re-labelled")


@lemma(props=["C19"], configs="none", raises=["AssertionError"],
       stubs={"cloudsync.hierarchical_cache:Node.full_path": {"results": ["str"]}})
def deleting_a_file_node_forgets_its_id(c: Cache, other: str):
    """L19.2: removing a file node (_delete; for a file the walk of the removed subtree is the node itself, so the real
    _walk is executed, not a contract): the node is taken out of its parent's children, its parent link is cleared,
    its id no longer resolves in the id map -- and no other id's binding changes (frame)"""
    n = cache_node(c, "n")
    assume(n.type == FILE)
    assume(not n.is_root)
    parent = n.parent
    nm = n.name
    noid = n.oid
    assume(parent.children.get(nm) is n)
    assume(truthy(noid))
    assume(other != noid)
    before = id_map(c, other)
    r = c._delete(n)
    check(r is n, "the removed node is returned")
    check(parent.children.get(nm) is None, "the parent no longer lists the node")
    check(n.parent is None, "the node's parent link is cleared")
    check(id_map(c, noid) is None, "the node's id no longer resolves")
    check(id_map(c, other) is before, "no other id's binding changes")


@lemma(props=["C19"], configs="none")
def deleting_the_root_or_nothing_is_a_no_op(c: Cache, other: str):
    """L19.3: _delete of the root, or of no node, changes nothing"""
    before = id_map(c, other)
    check(c._delete(None) is None, "no node: nothing returned")
    check(c._delete(c._root) is None, "the root is never removed")
    check(id_map(c, other) is before, "the id map is untouched")
    check(id_map(c, c._root.oid) is c._root, "the root id still leads to the root")


@lemma(props=["C19"], configs="none",
       stubs={"cloudsync.hierarchical_cache:Node.full_path": {"results": ["str"]}})
def id_lookups_read_the_id_map_and_change_nothing(c: Cache, oid: str, other: str):
    """L19.4: the id-keyed getters: the root id leads to the root, any other id to exactly what the id map binds (or
    nothing); get_type reports that node's type; a lookup changes no binding"""
    before = id_map(c, other)
    bound = id_map(c, oid)
    node = c._get_node(oid=oid)
    if oid == c._root.oid:
        check(node is c._root, "the root id leads to the root")
    else:
        check(node is bound, "any other id leads to what the id map binds, or to nothing")
    t = c.get_type(oid=oid)
    check(implies(node is None, t is None), "no node: no type")
    if node is not None:
        check(t == node.type, "the type is the node's type")
    check(id_map(c, other) is before and id_map(c, oid) is bound, "lookups change no binding")


@lemma(props=["C19"], configs="none", raises=["ValueError"],
       stubs={"cloudsync.hierarchical_cache:HierarchicalCache._get_node": {"results": ["node?"]},
              "cloudsync.hierarchical_cache:HierarchicalCache._delete": {"results": ["None"]},
              "cloudsync.hierarchical_cache:HierarchicalCache._HierarchicalCache__make_node": {"results": ["node"]},
              "cloudsync.hierarchical_cache:HierarchicalCache._set_oid": {"results": ["None"]},
              "cloudsync.hierarchical_cache:HierarchicalCache.set_metadata": {"results": ["None"]}})
def update_replaces_a_node_whose_type_changed(c: Cache, path: str, oid: opt_str, keep: bool):
    """L19.5: update of a path (_update): the node is looked up once, by that path; a node of another type is removed
    (one _delete of exactly that node) *before* a new node of the requested type is made at the path with the given id,
    which is what is returned; a missing node is made the same way without any removal; a node of the requested type is
    kept -- nothing is removed or made -- and is given the id (through _set_oid, which evicts a previous holder) exactly
    when an id was passed"""
    otype = FILE
    r = c._update(path, otype, oid, None, keep)
    g = calls("_get_node")
    d = calls("_delete")
    m = calls("_HierarchicalCache__make_node")
    so = calls("_set_oid")
    check(len(g) >= 1 and g[0].kw_path == path, "the node is looked up by the path given")
    found = g[0].result
    if found is None or found.type != otype:
        check(len(m) == 1 and m[0].kw_otype == otype and m[0].kw_path == path and m[0].kw_oid is oid, "a new node of the requested type is made at the path with the id given")
        check(r is m[0].result, "and that node is returned")
        check(len(so) == 0, "no separate id assignment")
        if found is None:
            check(len(d) == 0, "nothing to remove")
        else:
            check(len(d) == 1 and d[0].kw_remove_node is found, "the node of the other type is removed, exactly that one")
            order = [x for x in effect_names() if x in ("_delete", "_HierarchicalCache__make_node")]
            check(order == ["_delete", "_HierarchicalCache__make_node"], "removed before the new node is made")
    else:
        check(len(d) == 0 and len(m) == 0, "a node of the requested type is kept: nothing removed, nothing made")
        check(r is found, "the node found is returned")
        check(iff(len(so) == 1, truthy(oid)), "the id is assigned exactly when one was passed")
        if truthy(oid):
            check(so[0].args[0] is found and so[0].args[1] == oid, "to that node, that id")


@lemma(props=["C19"], configs="none", raises=["AssertionError"],
       stubs={"cloudsync.hierarchical_cache:HierarchicalCache._get_node": {"results": ["node?"]},
              "cloudsync.hierarchical_cache:HierarchicalCache._set_oid": {"results": ["None"]},
              "cloudsync.hierarchical_cache:HierarchicalCache._HierarchicalCache__make_node": {"results": ["node"]}})
def set_oid_labels_the_node_at_the_path_or_makes_one(c: Cache, path: str, oid: str):
    """L19.6: set_oid(path, oid, type): the node at the path, if there is one, is given the id through _set_oid (and no node
    is made); otherwise one node of the given type is made at that path with that id; empty arguments are refused"""
    c.set_oid(path, oid, FILE)
    g = calls("_get_node")
    so = calls("_set_oid")
    m = calls("_HierarchicalCache__make_node")
    check(len(path) > 0 and len(oid) > 0, "empty path or id is refused (assertion)")
    check(len(g) == 1 and g[0].kw_path == path, "one lookup, by the path given")
    if g[0].result is None:
        check(len(so) == 0 and len(m) == 1 and m[0].args[0] == FILE and m[0].args[1] == path and m[0].args[2] == oid, "no node there: one node of that type is made at the path with the id")
    else:
        check(len(m) == 0 and len(so) == 1 and so[0].args[0] is g[0].result and so[0].args[1] == oid, "the node found is given the id")


@lemma(props=["C19"], configs="none",
       stubs={"cloudsync.hierarchical_cache:Node.full_path": {"results": ["str"]}})
def get_path_resolves_the_node_the_id_map_binds(c: Cache, oid: str, other: str):
    """L19.7: the id->path view reads the structure the mutators maintain: get_path(id) is the full path of exactly the node
    the id map binds under that id, nothing if the id is unbound; no binding changes"""
    before = id_map(c, other)
    bound = id_map(c, oid)
    gp = c.get_path(oid)
    fp = calls("full_path")
    if bound is None:
        check(gp is None and len(fp) == 0, "an unbound id has no path")
    else:
        check(len(fp) == 1 and gp == fp[0].result, "a bound id resolves to its node's full path")
    check(id_map(c, other) is before and id_map(c, oid) is bound, "get_path changes no binding")


@lemma(props=["C19"], configs="none",
       stubs={"cloudsync.hierarchical_cache:HierarchicalCache._get_node": {"results": ["node?"]}})
def get_oid_reports_the_resolved_nodes_id(c: Cache, path: str, other: str):
    """L19.8: the path->id view: get_oid(path) is the id carried by the node the path lookup resolves, nothing if it
    resolves nothing; no binding changes"""
    before = id_map(c, other)
    go = c.get_oid(path)
    g = calls("_get_node")
    check(len(g) == 1 and g[0].kw_path == path, "one lookup by the path given")
    if g[0].result is None:
        check(go is None, "no node: no id")
    else:
        check(go is g[0].result.oid or go == g[0].result.oid, "the id is the one the resolved node carries")
    check(id_map(c, other) is before, "get_oid changes no binding")


@lemma(props=["C19"], configs="none", raises=["ValueError"],
       stubs={"cloudsync.hierarchical_cache:HierarchicalCache._get_node": {"results": ["node?"]},
              "cloudsync.hierarchical_cache:HierarchicalCache._delete": {"results": ["None"]},
              "cloudsync.hierarchical_cache:HierarchicalCache.delete": {"results": ["None"]},
              "cloudsync.hierarchical_cache:HierarchicalCache._HierarchicalCache__insert_node": {"results": ["None"]},
              "cloudsync.hierarchical_cache:HierarchicalCache._check": {"results": ["None"]}})
def rename_detaches_clears_the_target_then_inserts(c: Cache, old_path: str, new_path: str):
    """L19.9: rename = detach + delete target + insert, in that order: the node at the old path is looked up once; the root
    is refused (ValueError) before anything is touched; the node is detached first (_delete of exactly that node), nothing
    but the new path is ever deleted, and the same node -- so its whole subtree moves with it -- is inserted at the new path
    last and returned (the insertion clears its target itself, so the explicit delete is allowed but not required there);
    when nothing is at the old path the target is still cleared (delete by the new path) and nothing is inserted"""
    try:
        r = c._rename(old_path, new_path)
        raised = False
    except ValueError:
        raised = True
    g = calls("_get_node")
    d1 = calls("_delete")
    d2 = calls("delete")
    ins = calls("_HierarchicalCache__insert_node")
    check(len(g) == 1 and g[0].kw_path == old_path, "one lookup, of the old path")
    node = g[0].result
    if node is not None and node.is_root:
        check(raised, "the root cannot be renamed")
        check(len(d1) == 0 and len(d2) == 0 and len(ins) == 0, "and nothing was touched")
    else:
        check(not raised, "anything else is accepted")
        check(len(d1) == 1 and d1[0].args[0] is node, "the node found (or nothing) is detached")
        order = [x for x in effect_names() if x in ("_delete", "delete", "_HierarchicalCache__insert_node")]
        if node is None:
            check(len(d2) == 1 and d2[0].kw_path == new_path, "nothing at the old path: whatever sits at the new path is still deleted, by that path")
            check(len(ins) == 0 and r is None, "nothing to insert")
        else:
            # the insertion clears its target path itself (see __insert_node), so an explicit delete here is allowed, not required
            check(len(d2) <= 1 and (len(d2) == 0 or d2[0].kw_path == new_path), "nothing but the new path is deleted")
            check(len(ins) == 1 and ins[0].args[0] is node and ins[0].args[1] == new_path, "the same node is inserted at the new path")
            check(r is node, "and returned")
            check(order[0] == "_delete" and order[len(order) - 1] == "_HierarchicalCache__insert_node", "detached first, inserted last")


@lemma(props=["C19"], configs="none",
       stubs={"cloudsync.hierarchical_cache:HierarchicalCache._get_node": {"results": ["node?"]},
              "cloudsync.hierarchical_cache:HierarchicalCache._check_metadata": {"results": ["None"]}})
def metadata_is_set_on_the_node_resolved(c: Cache, path: str, other: str):
    """L19.10: set_metadata hands the metadata to the template validation and replaces the metadata of exactly the node
    the lookup resolves; get_metadata returns that node's metadata; neither touches the id map"""
    before = id_map(c, other)
    md = {"k": 1}
    c.set_metadata(md, path=path)
    g = calls("_get_node")
    v = calls("_check_metadata")
    check(len(v) == 1 and v[0].args[0] is md, "the metadata is validated")
    check(len(g) == 1 and g[0].kw_path == path, "one lookup")
    if g[0].result is not None:
        check(g[0].result.metadata is md, "the resolved node carries the new metadata")
    r = c.get_metadata(path=path)
    g2 = calls("_get_node")
    check(len(g2) == 2, "one more lookup")
    if g2[1].result is None:
        check(r is None, "no node: no metadata")
    else:
        check(r is g2[1].result.metadata, "the resolved node's metadata is returned")
    check(id_map(c, other) is before, "the id map is untouched")


@lemma(props=["C19"], configs="none", opaque=["normalize_path"],
       stubs={"cloudsync.hierarchical_cache:HierarchicalCache._new_node": {"results": ["node"]},
              "cloudsync.hierarchical_cache:HierarchicalCache._HierarchicalCache__insert_node": {"results": ["None"]},
              "cloudsync.hierarchical_cache:HierarchicalCache._check": {"results": ["None"]}})
def created_nodes_are_inserted_at_the_normalised_path(c: Cache, path: str, oid: str):
    """L19.11: create / mkdir (through __make_node): exactly one new node is made, of the type asked for (FILE for create,
    DIRECTORY for mkdir) and with the id given, and that node is inserted once, at the provider-normalised form of the
    path -- the form every path lookup resolves -- and returned"""
    r = c._create(path, oid)
    nn = calls("_new_node")
    ins = calls("_HierarchicalCache__insert_node")
    check(len(nn) == 1 and nn[0].args[0] == FILE and nn[0].args[1] == oid, "one new file node with the id given")
    check(len(ins) == 1 and ins[0].args[0] is nn[0].result, "that node is inserted, once")
    check(ins[0].args[1] == c._provider.normalize_path(path), "at the normalised path")
    check(r is nn[0].result, "and returned")
    r2 = c._mkdir(path, oid)
    nn2 = calls("_new_node")
    ins2 = calls("_HierarchicalCache__insert_node")
    check(len(nn2) == 2 and nn2[1].args[0] == DIRECTORY and nn2[1].args[1] == oid, "mkdir: one new directory node with the id given")
    check(len(ins2) == 2 and ins2[1].args[0] is nn2[1].result and ins2[1].args[1] == c._provider.normalize_path(path) and r2 is nn2[1].result, "inserted at the normalised path and returned")


@lemma(props=["C19"], configs="none", raises=["AssertionError"])
def add_child_files_the_node_under_its_name(c: Cache, other: str):
    """L19.12: Node.add_child on a directory node: the child is filed under its own name -- so the path view finds it
    where its name says -- and no other child slot changes (the fixture's parent is a directory; the refusal of a file
    parent is an assertion in the code and is not exercised here)"""
    n = cache_node(c, "n")
    p = n.parent
    assume(other != n.name)
    before = p.children.get(other)
    p.add_child(n)
    check(p.children.get(n.name) is n, "the child is filed under its own name")
    check(p.children.get(other) is before, "no other child slot changes")
