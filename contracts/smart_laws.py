"""C20: on-demand ("smart") sync -- cloudsync/smartsync.py."""
from pyvc.dsl import *   # noqa
from cloudsync.sync.state import TRASHED, MISSING, EXISTS, UNKNOWN
from cloudsync.types import DIRECTORY, FILE, LOCAL, REMOTE


@lemma(props=["C20"], configs="none", raises=["Exception"], smart=True,
       stubs={"cloudsync.sync.manager:SyncManager.pre_sync": {"results": ["True", "False"], "havoc": False}})
def smart_pre_sync_gate(w: World):
    """L20.1: the pre-sync gate finishes an entry without any transfer when it has no existing local file, was not
    requested and is not a remote folder; requested entries, local files and folders pass through unchanged"""
    mgr = w.mgr
    sync = w.entry("sync")
    requested = in_set(w.state.requestset, sync)
    remote_is_dir = sync[REMOTE].otype == DIRECTORY
    has_local_oid = truthy(sync[LOCAL].oid)
    r = mgr.pre_sync(sync)
    sup = calls("pre_sync")
    check(len(provider_writes()) == 0, "the gate itself writes nothing to a provider")
    ex_calls = [c for c in provider_calls() if c.method == "exists_oid"]
    for c in ex_calls:
        check(c.side == LOCAL, "only the local provider is asked whether the file exists")
    local_file = has_local_oid and len(ex_calls) == 1 and ex_calls[0].ok and truthy(ex_calls[0].result)
    if not requested and not remote_is_dir and not local_file:
        check(r is True, "an unrequested remote-only file is finished without being synced")
    if requested or remote_is_dir or local_file:
        check(len(sup) == 1 and (r is True or r is False), "requested entries, local files and folders go through the normal pre-sync")
        check(r == sup[0].result, "and the gate reports exactly what the normal pre-sync reported")
    ns = notifications()
    if r is not True:
        check(len(ns) == 0, "an entry that goes on to be synced is not reported as set aside")
    elif truthy(sync[REMOTE].path):
        check(len(ns) == 1, "an entry finished at the gate whose remote path is known is reported once")


@lemma(props=["C20", "C12"], configs="none", raises=["Exception"], smart=True)
def smart_unsync_touches_local_only(w: World):
    """L20.3: un-requesting an entry deletes only the local copy: no call at all on the remote provider, the only
    write is a delete on LOCAL of the object found at the entry's local path; afterwards the local side is cleared,
    the remote side is unsynced (so it is not treated as deleted), the entry is excluded and no longer requested"""
    state = w.state
    ent = w.entry("ent")
    lp = ent[LOCAL].path
    state._smart_unsync_ent(ent)
    for c in provider_calls():
        check(c.side == LOCAL, "no call on the remote provider")
    ws = provider_writes()
    check(len(ws) <= 1, "at most one write")
    infos = [c for c in provider_calls() if c.method == "info_path"]
    for c in ws:
        check(c.method == "delete" and c.side == LOCAL, "the write is a local delete")
        check(len(infos) == 1 and infos[0].args[0] == lp and c.args[0] == infos[0].result.oid, "of the object found at the entry's local path")
    if lp and len(infos) == 1 and infos[0].ok and infos[0].result is not None:
        check(len(ws) == 1, "a local copy that is there is deleted")
    if lp:
        check(ent[LOCAL].oid is None and ent[LOCAL].path is None, "the local side is cleared")
        check(ent[REMOTE].sync_path is None and ent[REMOTE].sync_hash is None, "the remote side is marked unsynced, not deleted")
    check(in_set(state.excludeset, ent) and not in_set(state.requestset, ent), "the entry is excluded and no longer requested")


@lemma(props=["C20"], configs="none", raises=["Exception"], smart=True, fixed_clock=True)
def smart_sync_request(w: World):
    """L20.5: requesting an entry adds it to the request set and removes it from the exclude set; if its local file is
    gone the local side is cleared and the remote side is marked changed and unsynced so that it is downloaded"""
    state = w.state
    ent = w.entry("ent")
    lp = ent[LOCAL].path
    state._smart_sync_ent(ent)
    check(in_set(state.requestset, ent) and not in_set(state.excludeset, ent), "the entry is requested and not excluded")
    check(len(provider_writes()) == 0, "requesting writes nothing")
    ex_calls = [c for c in provider_calls() if c.method == "exists_path"]
    if lp and len(ex_calls) == 1 and ex_calls[0].ok and not truthy(ex_calls[0].result):
        check(ent[LOCAL].oid is None and ent[LOCAL].path is None, "a vanished local copy: the local side is cleared")
        check(ent[REMOTE].sync_path is None and ent[REMOTE].sync_hash is None and truthy(ent[REMOTE].changed),
              "the remote side is marked changed and unsynced")
