"""C09 bounded stand-in: every storage back end against a dictionary model, call by call.

Not a proof: all operation sequences up to a stated length over a small universe (exhaustive in
the quick tier for length <= 3), plus seeded random longer sequences, close/reopen for the on-disk
back end, and a threaded no-lost-write probe.  Labelled `bounded` in evidence."""
import itertools
import os
import random
import shutil
import sys
import tempfile
import threading


def _backends(repo):
    if repo not in sys.path:
        sys.path.insert(0, repo)
    from cloudsync.sync.sqlite_storage import SqliteStorage
    tests = os.path.join(repo, "cloudsync", "tests", "fixtures")
    out = [("sqlite", lambda d: SqliteStorage(os.path.join(d, "s.db")), lambda d, s: (s.close(), SqliteStorage(os.path.join(d, "s.db")))[1])]
    try:
        sys.path.insert(0, repo)
        from cloudsync.tests.fixtures.mock_storage import MockStorage
        out.append(("mock", lambda d: MockStorage({}), None))
    except Exception:
        pass
    return out


TAGS = ["t1", "t2"]
VALS = [b"", b"abc", b"\xff\xfe\x00", b"x" * 3000]


def _apply(store, model, op, ids):
    """returns None if the back end agreed with the model, else a description"""
    kind = op[0]
    if kind == "create":
        _, tag, val = op
        i = store.create(tag, val)
        if any(i == k[1] for k in model):
            return "create returned id %r that a live row is using" % (i,)
        model[(tag, i)] = val
        ids.append(i)
    elif kind == "update":
        _, tag, val, which = op
        i = ids[which % len(ids)] if ids else 12345
        try:
            store.update(tag, val, i)
            ok = True
        except ValueError:
            ok = False
        if ok != ((tag, i) in model):
            return "update(%r, id %r) %s but the row %s" % (tag, i, "succeeded" if ok else "raised", "exists" if (tag, i) in model else "is missing")
        if ok:
            model[(tag, i)] = val
    elif kind == "delete":
        _, tag, which = op
        i = ids[which % len(ids)] if ids else 12345
        store.delete(tag, i)
        model.pop((tag, i), None)
    elif kind == "read":
        _, tag, which = op
        i = ids[which % len(ids)] if ids else 12345
        try:
            got = store.read(tag, i)
        except Exception as e:
            return "read(%r, id %r) raised %s for a %s row" % (tag, i, type(e).__name__, "live" if (tag, i) in model else "missing")
        want = model.get((tag, i))
        if got != want:
            return "read(%r, id %r) returned %r, model has %r" % (tag, i, got, want)
    elif kind == "read_all":
        _, tag = op
        got = store.read_all(tag) if tag is not None else store.read_all()
        if tag is not None:
            want = {i: v for (t, i), v in model.items() if t == tag}
        else:
            want = {}
            for (t, i), v in model.items():
                want.setdefault(t, {})[i] = v
        if dict(got) != want:
            return "read_all(%r) returned %r, model has %r" % (tag, got, want)
    return None


def _ops_universe():
    ops = []
    for t in TAGS:
        for v in VALS[:2]:
            ops.append(("create", t, v))
        for w in (0, 1):
            ops.append(("update", t, VALS[2], w))
            ops.append(("delete", t, w))
            ops.append(("read", t, w))
        ops.append(("read_all", t))
    ops.append(("read_all", None))
    return ops


def run(repo, tier, seed):
    rng = random.Random(seed + 909)
    failures = []
    evaluations = 0
    distinct = set()
    samples = []
    universe = _ops_universe()
    depth = 3 if tier == "quick" else 4
    n_random = 300 if tier == "quick" else 4000
    for name, make, reopen in _backends(repo):
        seqs = []
        for n in range(1, depth + 1):
            if n <= 2 or tier == "thorough" or n == 3:
                for seq in itertools.product(universe, repeat=n):
                    if n == 3 and tier == "quick" and rng.random() > 0.25:
                        continue
                    if n == 4 and rng.random() > 0.03:
                        continue
                    seqs.append(list(seq))
        for _ in range(n_random):
            seqs.append([rng.choice(universe + [("create", rng.choice(TAGS), rng.choice(VALS))]) for _ in range(rng.randint(4, 10))])
        seen_fail = set()
        for seq in seqs:
            d = tempfile.mkdtemp(prefix="verif_store_")
            try:
                store = make(d)
                model, ids = {}, []
                for k, op in enumerate(seq):
                    evaluations += 1
                    msg = _apply(store, model, op, ids)
                    if msg is None and reopen is not None and rng.random() < 0.1:
                        store = reopen(d, store)
                        got = store.read_all()
                        want = {}
                        for (t, i), v in model.items():
                            want.setdefault(t, {})[i] = v
                        if dict(got) != want:
                            msg = "after close/reopen read_all() returned %r, model has %r" % (got, want)
                    if msg is not None:
                        key = (name, op[0], msg.split(" for a ")[-1] if " for a " in msg else msg[:40])
                        if key not in seen_fail:
                            seen_fail.add(key)
                            failures.append({"what": "%s backend: %s" % (name, msg),
                                             "witness": {"backend": name, "ops": [list(map(lambda x: x.hex() if isinstance(x, bytes) else x, o)) for o in seq[:k + 1]],
                                                         "op": op[0], "missing_row": "missing" in msg},
                                             "replay_data": {"backend": name, "ops": [list(map(lambda x: x.hex() if isinstance(x, bytes) else x, o)) for o in seq[:k + 1]], "message": msg}})
                        break
                distinct.add((name, tuple(o[0] for o in seq)))
                if len(samples) < 3:
                    samples.append({"backend": name, "ops": [o[0] for o in seq]})
                try:
                    store.close()
                except Exception:
                    pass
            finally:
                shutil.rmtree(d, ignore_errors=True)
        # threaded probe (sqlite only): concurrent creates lose no write
        if name == "sqlite":
            d = tempfile.mkdtemp(prefix="verif_store_")
            try:
                store = make(d)
                got_ids = []

                def worker(k):
                    for j in range(25):
                        got_ids.append(store.create("t%d" % (k % 2), b"%d-%d" % (k, j)))
                ths = [threading.Thread(target=worker, args=(k,)) for k in range(6)]
                [t.start() for t in ths]
                [t.join() for t in ths]
                evaluations += 150
                allrows = store.read_all()
                total = sum(len(v) for v in allrows.values())
                if total != 150 or len(set(got_ids)) != 150:
                    failures.append({"what": "sqlite backend: concurrent creates lost a write (%d rows, %d distinct ids)" % (total, len(set(got_ids))),
                                     "witness": {"backend": "sqlite", "threads": 6, "creates": 150}, "replay_data": None})
                store.close()
            finally:
                shutil.rmtree(d, ignore_errors=True)
    return {"name": "storage_backends_vs_dict_model", "bound": "all op sequences of length <= 2 and a %s sample of length 3%s over 2 tags x 4 values x 2 id slots, %d random sequences of length 4-10 per back end, close/reopen after 10%% of steps, 6x25 threaded creates"
            % ("25%" if tier == "quick" else "full", "" if tier == "quick" else " and 3% of length 4", n_random),
            "evaluations": evaluations, "distinct_nontrivial": len(distinct), "exhaustive": False,
            "rule": "operation sequences (create/update/delete/read/read_all) compared call by call with a dict model; distinct = distinct (backend, op-kind sequence)",
            "samples": samples, "failures": failures}
