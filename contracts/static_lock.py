"""C15 (first sentence): every read-modify-write of the shared sync state happens while holding the
state lock -- as a modular *permission contract* checked over the whole repository on every run.

  * A **mutation site** is a call of a SyncState/SyncEntry/SideState operation that writes sync state
    (update, update_entry, split, finished, storage_commit, mark_changed, change, forget, punt, ignore,
    get_latest, clear, ...) or an assignment to a field of an entry / side state (`ent[side].x = ...`,
    `sync.ignored = ...`).
  * A function **requires the lock** (`requires held(state.lock)`) if it contains a mutation site, or a call of a
    function that requires the lock, outside every `with <...>.lock:` block.  Calls are resolved by method name
    within the repository (an over-approximation: any same-named method may be the callee).
  * Obligation per **entry point** (public methods of CloudSync / SmartCloudSync, the `do` methods run by service
    threads, EventManager.forget): it must *not* require the lock, i.e. it establishes it itself.

Cursor / walk-marker bookkeeping (storage_get_data / storage_update_data / storage_delete_tag) is keyed by a tag owned
by one event manager and touches no entry or index; it is not counted as shared sync state here.

The classes that implement the state (state.py) are the lock's clients' callees, not entry points.  Not checked
here: that holding an RLock makes a step atomic (assumed), and the convergence sentence of C15.
"""
import ast
import os

MUTATING_CALLS = {
    "update", "update_entry", "split", "finished", "storage_commit", "mark_changed", "change", "forget", "forget_oid",
    "punt", "ignore", "unignore", "get_latest", "clear", "set_aged", "set_force_sync", "mark_dirty", "uncorrupt",
    "smart_sync_path", "smart_sync_oid", "smart_unsync_oid", "smart_unsync_ent", "_smart_sync_ent", "_smart_unsync_ent",
    "_smart_unsync", "unconditionally_get_latest", "rename_dir",
}
# receivers whose same-named methods are not sync-state operations
NON_STATE_RECEIVERS = ("log", "logging", "os", "shutil", "self._queue", "self.requestset", "self.excludeset", "set", "dict",
                       "ret", "ser", "changes", "found_ents", "remaining", "nc", "pcs", "self._callbacks", "guard.fhs", "r", "rlist",
                       "self.__queue", "self._provider_guard", "self._dirtyset", "self._changeset_storage", "hashlib", "th",
                       "self.__interrupt", "self.__cache", "cache", "hash_state", "self._events", "self.__seen", "self.db")
ENTRY_CLASSES = ("CloudSync", "SmartCloudSync")
ENTRY_EXTRA = {("EventManager", "do"), ("SyncManager", "do"), ("SmartSyncManager", "do"), ("EventManager", "forget"),
               ("EventManager", "_process_event"), ("SmartCloudSync", "_smart_sync_ent")}
STATE_FILES = ("cloudsync/sync/state.py",)
SCAN = ("cloudsync/cs.py", "cloudsync/event.py", "cloudsync/smartsync.py", "cloudsync/sync/manager.py")
ENTRY_FIELD_ATTRS = {"path", "oid", "hash", "sync_hash", "sync_path", "exists", "changed", "otype", "size", "mtime", "temp_file",
                     "force_sync", "ignored", "priority", "storage_id"}


def _is_lock_with(node):
    for item in node.items:
        e = item.context_expr
        if isinstance(e, ast.Attribute) and e.attr == "lock":
            return True
    return False


class FuncInfo:
    def __init__(self, cls, name, node, file):
        self.cls, self.name, self.node, self.file = cls, name, node, file
        self.unlocked_mutations = []    # (lineno, text)
        self.unlocked_calls = []        # (lineno, callee name)
        self.requires = False
        self.why = None


def _scan_function(fi):
    def visit(n, locked):
        for ch in ast.iter_child_nodes(n):
            if isinstance(ch, (ast.FunctionDef, ast.AsyncFunctionDef, ast.Lambda, ast.ClassDef)) and ch is not fi.node:
                # nested definitions run later, in an unknown lock context: scanned as part of this function, unlocked
                visit(ch, False)
                continue
            if isinstance(ch, ast.With):
                inner = locked or _is_lock_with(ch)
                for item in ch.items:
                    visit(item.context_expr, locked)
                for b in ch.body:
                    visit_stmt(b, inner)
                continue
            visit_stmt(ch, locked)

    def visit_stmt(n, locked):
        if isinstance(n, ast.With):
            inner = locked or _is_lock_with(n)
            for b in n.body:
                visit_stmt(b, inner)
            return
        if isinstance(n, (ast.Assign, ast.AugAssign, ast.AnnAssign)) and not locked:
            targets = n.targets if isinstance(n, ast.Assign) else [n.target]
            for t in targets:
                if isinstance(t, ast.Attribute) and t.attr in ENTRY_FIELD_ATTRS:
                    base = t.value
                    src = ast.unparse(base)
                    # ent[side].x = ... / sync.ignored = ... / entry.priority = ...
                    if isinstance(base, ast.Subscript) or t.attr in ("ignored", "priority") and src not in ("self",):
                        if not src.startswith("self.") or isinstance(base, ast.Subscript):
                            fi.unlocked_mutations.append((n.lineno, ast.unparse(t)))
        if isinstance(n, ast.Call):
            f = n.func
            if isinstance(f, ast.Attribute):
                recv = ast.unparse(f.value)
                if not locked:
                    if f.attr in MUTATING_CALLS and not recv.startswith(NON_STATE_RECEIVERS) and recv not in NON_STATE_RECEIVERS:
                        if not (recv == "self" and fi.cls in ("SyncManager", "SmartSyncManager", "CloudSync", "SmartCloudSync", "EventManager", "SmartEventManager")
                                and f.attr in ("update", "forget", "change", "finished", "update_entry")):
                            if recv != "super()":
                                fi.unlocked_mutations.append((n.lineno, "%s.%s(...)" % (recv, f.attr)))
                    fi.unlocked_calls.append((n.lineno, f.attr, recv))
        visit(n, locked)
    for stmt in fi.node.body:
        visit_stmt(stmt, False)


def lock_discipline(repo, tier):
    funcs = {}
    by_name = {}
    for rel in SCAN:
        path = os.path.join(repo, rel)
        with open(path) as f:
            tree = ast.parse(f.read())
        for cnode in [n for n in tree.body if isinstance(n, ast.ClassDef)]:
            for item in cnode.body:
                if isinstance(item, ast.FunctionDef):
                    fi = FuncInfo(cnode.name, item.name, item, rel)
                    _scan_function(fi)
                    funcs[(cnode.name, item.name)] = fi
                    by_name.setdefault(item.name, []).append(fi)
    # fixpoint: requires-lock
    for fi in funcs.values():
        if fi.unlocked_mutations:
            fi.requires = True
            ln, txt = fi.unlocked_mutations[0]
            fi.why = ["%s.%s (%s:%d) writes sync state outside the lock: %s" % (fi.cls, fi.name, fi.file, ln, txt)]
    changed = True
    while changed:
        changed = False
        for fi in funcs.values():
            if fi.requires:
                continue
            for ln, callee, recv in fi.unlocked_calls:
                if recv not in ("self", "super()", "self.smgr", "self.emgrs", "self.state", "cs", "self.sync"):
                    continue
                for g in by_name.get(callee, []):
                    if g is fi or not g.requires:
                        continue
                    if recv in ("self", "super()") and g.cls != fi.cls and not _related(fi.cls, g.cls):
                        continue
                    fi.requires = True
                    fi.why = ["%s.%s (%s:%d) calls %s.%s outside the lock" % (fi.cls, fi.name, fi.file, ln, g.cls, g.name)] + g.why
                    changed = True
                    break
                if fi.requires:
                    break
    results = []
    entries = []
    for (c, n), fi in funcs.items():
        if (c in ENTRY_CLASSES and not n.startswith("_")) or (c, n) in ENTRY_EXTRA:
            entries.append(fi)
    for fi in sorted(entries, key=lambda x: (x.cls, x.name)):
        results.append({"name": "lock:%s.%s" % (fi.cls, fi.name), "ok": not fi.requires,
                        "detail": "establishes the lock itself (or touches no sync state)" if not fi.requires else " -> ".join(fi.why),
                        "witness": None if not fi.requires else {"entry_point": "%s.%s" % (fi.cls, fi.name), "chain": fi.why}})
    # the two thread bodies must actually take the lock (guards against the scan becoming vacuous)
    for c, n in (("EventManager", "_process_event"), ("SyncManager", "do"), ("SmartCloudSync", "_smart_sync_ent")):
        fi = funcs.get((c, n))
        has_with = fi is not None and any(isinstance(x, ast.With) and _is_lock_with(x) for x in ast.walk(fi.node))
        results.append({"name": "takes-lock:%s.%s" % (c, n), "ok": bool(has_with),
                        "detail": "contains `with <state>.lock:`" if has_with else "no `with ....lock:` block found",
                        "witness": None if has_with else {"function": "%s.%s" % (c, n)}})
    return results


def _related(a, b):
    fam = [{"SyncManager", "SmartSyncManager"}, {"CloudSync", "SmartCloudSync"}, {"EventManager", "SmartEventManager"},
           {"SyncState", "SmartSyncState"}]
    return any(a in f and b in f for f in fam)
