"""C16 (deductive part): contracts of the provider base class that every provider inherits
(cloudsync/provider.py): identity check on connect."""
from pyvc.dsl import *   # noqa
import cloudsync.exceptions as ex


@lemma(props=["C16"], configs="sides", raises=["Exception"],
       inline=["cloudsync.provider:Provider.connect", "cloudsync.provider:Provider.disconnect"],
       stubs={"cloudsync.provider:Provider.connect_impl": {"results": ["str"], "havoc": False}})
def connect_refuses_a_different_identity(w: World):
    """L16.5: connecting: whatever identity the implementation reports, a provider that already has an identity accepts
    only the same one -- a different identity is refused with CloudTokenError and leaves the provider disconnected with
    its identity unchanged; a provider without an identity adopts the reported one; on normal return it is connected"""
    p = w.providers[w.changed]
    had = p.connection_id
    try:
        p.connect({"k": "v"})
        raised = None
    except BaseException as e:
        raised = e
    ci = calls("connect_impl")
    check(len(ci) == 1, "the implementation is asked exactly once")
    if ci[0].ok:
        new_id = ci[0].result
        if truthy(had) and had != new_id:
            check(isinstance(raised, ex.CloudTokenError), "a different identity is refused")
            check(p.connection_id == had and not p.connected, "identity unchanged, provider disconnected")
        else:
            check(raised is None, "the same (or a first) identity is accepted")
            check(p.connected and p.connection_id == (had if truthy(had) else new_id), "connected under that identity")
