"""Which lemma files, static obligations and bounded stand-ins decide which property."""

PROPS = {
    "C02": {
        "level": "proof",
        "lemma_files": ["contracts/engine_laws.py"],
        "conformance": [],
    },
    "C13": {
        "level": "proof",
        "lemma_files": ["contracts/path_laws.py"],
        "conformance": ["str"],
        "bounded": [],
        "static": [],
    },
}
