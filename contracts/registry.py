"""Which lemma files, static obligations and bounded stand-ins decide which property."""

ENGINE = ["contracts/engine_laws.py", "contracts/event_laws.py", "contracts/mirror_laws.py"]

PROPS = {
    "C02": {"level": "proof", "lemma_files": ENGINE + ["contracts/state_index.py"], "conformance": []},
    "C03": {"level": "proof", "lemma_files": ENGINE, "conformance": []},
    "C04": {"level": "proof", "lemma_files": ENGINE + ["contracts/state_index.py"], "conformance": []},
    "C05": {"level": "proof", "lemma_files": ENGINE + ["contracts/state_index.py"], "conformance": []},
    "C06": {"level": "proof", "lemma_files": ENGINE + ["contracts/storage_laws.py", "contracts/codec_laws.py"], "conformance": []},
    "C07": {"level": "proof", "lemma_files": ENGINE + ["contracts/codec_laws.py"], "conformance": []},
    "C08": {"level": "proof", "lemma_files": ENGINE + ["contracts/state_index.py", "contracts/codec_laws.py"], "conformance": []},
    "C09": {"level": "proof", "lemma_files": ["contracts/storage_laws.py"], "conformance": [],
            "bounded": ["contracts.bounded_storage.run"]},
    "C10": {"level": "proof", "lemma_files": ENGINE + ["contracts/state_index.py"], "conformance": []},
    "C11": {"level": "proof", "lemma_files": ENGINE + ["contracts/state_index.py", "contracts/codec_laws.py"], "conformance": []},
    "C12": {"level": "proof", "lemma_files": ENGINE + ["contracts/path_laws.py"], "conformance": ["str"]},
    "C13": {"level": "proof", "lemma_files": ["contracts/path_laws.py"], "conformance": ["str"],
            "bounded": ["contracts.bounded_paths.run"]},
    "C14": {"level": "proof", "lemma_files": ENGINE + ["contracts/state_index.py"], "conformance": []},
    "C15": {"level": "proof", "lemma_files": ENGINE, "conformance": [], "static": ["contracts.static_lock.lock_discipline"]},
    "C16": {"level": "exploration", "lemma_files": ["contracts/provider_laws.py"], "conformance": [], "bounded": ["contracts.bounded_providers.run"],
            "explanation": "bounded: provider operation sequences against a reference tree, hash law per size class, identity check"},
    "C17": {"level": "proof", "lemma_files": ENGINE + ["contracts/state_index.py"], "conformance": []},
    "C18": {"level": "proof", "lemma_files": ENGINE, "conformance": []},
    "C19": {"level": "exploration", "lemma_files": ["contracts/cache_laws.py"], "conformance": [], "bounded": ["contracts.bounded_cache.run"],
            "explanation": "bounded: cache operation sequences, coherence invariant after every call"},
    "C20": {"level": "proof", "lemma_files": ["contracts/smart_laws.py"], "conformance": []},
}
