"""C19 bounded stand-in: HierarchicalCache coherence after every call of every short operation sequence.

The coherence invariant K of DESIGN.md (tree shape, id map = reachable nodes with ids, path<->id inverse) is
an inductive predicate over a recursive structure; no first-order contract in reach of pyvc expresses the
reachability part, so this property is decided by exhaustive small-scope enumeration plus seeded random
sequences (labelled bounded, level `exploration`)."""
import itertools
import random
import sys

NAMES = ["a", "b", "A"]
OIDS = ["1", "2", "3"]


def _paths():
    out = []
    for n in NAMES:
        out.append("/" + n)
        for m in NAMES[:2]:
            out.append("/" + n + "/" + m)
    out.append("/a/b/a")
    return out


def _ops():
    ops = []
    P = _paths()
    for p in P[:7]:
        for o in OIDS[:2]:
            ops.append(("create", p, o))
            ops.append(("mkdir", p, o))
        ops.append(("mkdir", p, None))
        ops.append(("delete_path", p))
        for o in OIDS[:2]:
            ops.append(("set_oid", p, o))
    for p in P[:4]:
        ops.append(("update", p, "file", OIDS[2]))
        ops.append(("update", p, "dir", None))
    for o in OIDS:
        ops.append(("delete_oid", o))
    for a, b in itertools.permutations(P[:5], 2):
        ops.append(("rename", a, b))
    return ops


ALLOWED_EXC = ("ValueError", "CloudFileExistsError", "CloudFileNotFoundError")


def _apply(cache, op, types):
    FILE, DIRECTORY = types
    k = op[0]
    if k == "create":
        cache.create(op[1], op[2])
    elif k == "mkdir":
        cache.mkdir(op[1], op[2])
    elif k == "delete_path":
        cache.delete(path=op[1])
    elif k == "delete_oid":
        cache.delete(oid=op[1])
    elif k == "set_oid":
        cache.set_oid(op[1], op[2], FILE)
    elif k == "rename":
        cache.rename(op[1], op[2])
    elif k == "update":
        cache.update(op[1], FILE if op[2] == "file" else DIRECTORY, oid=op[3])


def _invariant(cache, prov):
    """returns None or a description of the incoherence"""
    root = cache._root
    seen = {}
    stack = [(root, "/")]
    ids = {}
    while stack:
        node, path = stack.pop()
        if id(node) in seen:
            return "cycle or shared node at %s" % path
        seen[id(node)] = path
        if node.oid is not None:
            if node.oid in ids:
                return "id %r is held by two nodes (%s and %s)" % (node.oid, ids[node.oid], path)
            ids[node.oid] = path
        for name, ch in node.children.items():
            if ch.parent is not node:
                return "child %s of %s has a different parent link" % (name, path)
            if node.type.value != "dir":
                return "file node %s has children" % path
            stack.append((ch, prov.join(path, ch.name)))
    for oid, node in cache._oid_to_node.items():
        if id(node) not in seen:
            return "id map entry %r leads to a node that is not in the tree" % (oid,)
        if node.oid != oid:
            return "id map entry %r leads to a node carrying id %r" % (oid, node.oid)
    for oid, path in ids.items():
        if oid not in cache._oid_to_node:
            return "node %s carries id %r but the id map does not know it" % (path, oid)
        gp = cache.get_path(oid)
        if gp is None or not prov.paths_match(gp, path):
            return "get_path(%r) = %r but the node is at %s" % (oid, gp, path)
        go = cache.get_oid(gp)
        if go != oid:
            return "get_oid(get_path(%r)) = %r" % (oid, go)
    return None


def run(repo, tier, seed):
    if repo not in sys.path:
        sys.path.insert(0, repo)
    from cloudsync.hierarchical_cache import HierarchicalCache
    from cloudsync.providers.mock import MockProvider
    from cloudsync.types import FILE, DIRECTORY
    import logging
    logging.disable(logging.CRITICAL)
    rng = random.Random(seed + 19)
    ops = _ops()
    failures, samples = [], []
    evaluations = 0
    distinct = set()
    seen_fail = set()
    depth = 2 if tier == "quick" else 3
    n_random = 3000 if tier == "quick" else 150000
    for cs in (True, False):
        prov = MockProvider(False, cs)
        seqs = []
        for n in range(1, depth + 1):
            for seq in itertools.product(ops, repeat=n):
                if n == 3 and rng.random() > 0.02:
                    continue
                seqs.append(seq)
        for _ in range(n_random):
            seqs.append(tuple(rng.choice(ops) for _ in range(rng.randint(3, 8))))
        for seq in seqs:
            cache = HierarchicalCache(prov, "0")
            for k, op in enumerate(seq):
                evaluations += 1
                msg = None
                # is the id this call assigns currently held by an ancestor / descendant of its target path?
                relative = False
                assigned = op[3] if op[0] == "update" else (op[2] if op[0] in ("create", "mkdir", "set_oid") else None)
                if assigned is not None:
                    op_oid = assigned
                    try:
                        held_at = cache.get_path(op_oid)
                    except Exception:
                        held_at = None
                    if held_at is not None:
                        relative = bool(prov.is_subpath(held_at, op[1], strict=True) or prov.is_subpath(op[1], held_at, strict=True))
                try:
                    _apply(cache, op, (FILE, DIRECTORY))
                except AssertionError as e:
                    # Node.check() refuses a child that carries its parent's id (tested behaviour): allowed as long as
                    # the cache stays coherent, which the invariant below checks
                    if not relative:
                        msg = "%s raised AssertionError: %s" % (op[0], str(e)[:80])
                except Exception as e:
                    if type(e).__name__ not in ALLOWED_EXC:
                        msg = "%s raised %s: %s" % (op[0], type(e).__name__, str(e)[:80])
                if msg is None:
                    try:
                        msg = _invariant(cache, prov)
                    except Exception as e:
                        msg = "invariant evaluation raised %s: %s" % (type(e).__name__, str(e)[:80])
                if msg is not None:
                    shape = tuple(o[0] for o in seq[:k + 1])
                    cls_ = msg.split(" ")[0] + ":" + ("exc" if "raised" in msg else msg[:25])
                    key = (cs, cls_, relative)
                    if key not in seen_fail:
                        seen_fail.add(key)
                        failures.append({"what": "case_sensitive=%s: after %s: %s" % (cs, list(seq[:k + 1]), msg),
                                         "witness": {"case_sensitive": cs, "ops": [list(o) for o in seq[:k + 1]], "message": msg,
                                                     "id_held_by_ancestor_or_descendant": relative,
                                                     "kind": "exception" if "raised" in msg else "incoherent",
                                                     "exc": msg.split("raised ")[1].split(":")[0] if "raised" in msg else None},
                                         "replay_data": {"case_sensitive": cs, "ops": [list(o) for o in seq[:k + 1]], "message": msg}})
                    break
            distinct.add((cs, tuple(o[0] for o in seq)))
            if len(samples) < 3:
                samples.append({"case_sensitive": cs, "ops": [list(o) for o in seq]})
    return {"name": "hierarchical_cache_coherence", "bound": "all sequences of <= %d calls over %d operations (names a,b,A; depth <= 3; ids 1-3) and %d random sequences of 3-8 calls, both case modes"
            % (depth, len(ops), n_random),
            "evaluations": evaluations, "distinct_nontrivial": len(distinct), "exhaustive": False,
            "rule": "sequences of create/mkdir/delete/set_oid/rename; after every call: tree shape, id map = reachable nodes with ids, get_path/get_oid inverse; distinct = distinct (case mode, op-kind sequence)",
            "samples": samples, "failures": failures}
