"""C06 / C07 / C14 / C10 / C15: contracts of the event intake (cloudsync/event.py EventManager)."""
from pyvc.dsl import *   # noqa
from cloudsync.types import DIRECTORY, FILE
from cloudsync.notification import SourceEnum
import cloudsync.exceptions as ex


@lemma(props=["C06", "C07"], configs="sides", raises=["Exception"],
       stubs={"cloudsync.event:EventManager._do_first_init": {"results": ["None"], "havoc": False},
              "cloudsync.event:EventManager._do_walk_if_needed": {"results": ["None"], "havoc": False},
              "cloudsync.event:EventManager._process_event": {"results": ["None"], "havoc": False}})
def cursor_saved_after_the_events_it_covers(w: World):
    """L6.3 / L7.3: in one event-intake step the cursor is persisted only after every event of the batch was
    processed (each processing ends in a commit), and never when the step was cut short by a stop"""
    em = w.event_manager(w.changed)
    stopped0 = em.stopped
    em._do_unsafe()
    names = effect_names()
    saves = calls("storage_update_data")
    if len(saves) > 0:
        check(len(saves) == 1, "the cursor is written at most once per step")
        check(names[len(names) - 1] == "storage_update_data", "and that write is the last effect of the step")
        check(saves[0].args[0] == em._cursor_tag, "under the cursor tag")
        check(saves[0].args[1] == em.cursor and em.cursor is not None or saves[0].args[1] == em.cursor, "the stored cursor is the one remembered")
    if stopped0:
        check(len(calls("_process_event")) == 0, "a stopped manager processes no provider event")


@lemma(props=["C14", "C07", "C15", "C06"], configs="sides", raises=["Exception"],
       stubs={"cloudsync.event:EventManager._fill_event_path": {"results": ["None"], "raises": False, "havoc": False},
              "cloudsync.event:EventManager._notify_on_root_change_event": {"results": ["None"], "havoc": False}})
def process_event_contract(w: World, from_walk: bool):
    """L14.1 / L6.7 / L7.2: an event without an id is ignored (except a folder deletion matched by path);
    a walk event that changes nothing is ignored; otherwise exactly one state update followed by one commit,
    both while holding the state lock"""
    em = w.event_manager(w.changed)
    ev = w.event("ev")
    had_oid = ev.oid is not None
    dir_delete_by_path = ev.exists is False and truthy(ev.path) and ev.otype == DIRECTORY
    em._process_event(ev, from_walk)
    ups = calls("update")
    commits = calls("storage_commit")
    names = effect_names()
    check(len(provider_writes()) == 0, "event intake never writes to a provider")
    check(len(ups) <= 1 and len(commits) <= 1, "at most one update and one commit")
    if not had_oid and not dir_delete_by_path:
        check(len(ups) == 0 and len(commits) == 0, "an event without an id is ignored")
    if len(ups) == 1:
        check(len(commits) == 1 and names[len(names) - 1] == "storage_commit", "the update is followed by a commit")
        check(ups[0].held >= 1 and commits[0].held >= 1, "both under the state lock")
        check(ups[0].args[0] == w.changed, "the update is for this manager's side")
    check(lock_held() == 0, "the lock is released afterwards")
