"""C06 / C07 / C14 / C10 / C15: contracts of the event intake (cloudsync/event.py EventManager)."""
from pyvc.dsl import *   # noqa
from cloudsync.types import DIRECTORY, FILE
from cloudsync.sync.state import TRASHED, MISSING, EXISTS, UNKNOWN, LIKELY_TRASHED, CORRUPT
from cloudsync.notification import SourceEnum
import cloudsync.exceptions as ex


@lemma(props=["C06", "C07", "C14"], configs="sides", raises=["Exception"],
       stubs={"cloudsync.event:EventManager._do_first_init": {"results": ["None"], "havoc": False},
              "cloudsync.event:EventManager._do_walk_if_needed": {"results": ["None"], "havoc": False},
              "cloudsync.event:EventManager._process_event": {"results": ["None"], "havoc": False}})
def cursor_saved_after_the_events_it_covers(w: World):
    """L6.3 / L7.3: in one event-intake step the cursor is persisted only after every event of the batch was
    processed (each processing ends in a commit), and never when the step was cut short by a stop"""
    em = w.event_manager(w.changed)
    stopped0 = em.stopped
    c0 = em.cursor
    em._do_unsafe()
    names = effect_names()
    saves = calls("storage_update_data")
    check(len(calls("_do_first_init")) == 1 and len(calls("_do_walk_if_needed")) == 1, "every step starts with the first-step logic and the walk-if-needed logic")
    seen = 0
    for n in names:
        if n == "_do_first_init":
            check(seen == 0, "cursor restoration comes first")
            seen = 1
        elif n == "_do_walk_if_needed":
            check(seen == 1, "then the walk")
            seen = 2
        elif n == "read:events" or n == "_process_event":
            check(seen == 2, "and only then provider events are taken in")
    if len(saves) > 0:
        check(len(saves) == 1, "the cursor is written at most once per step")
        check(names[len(names) - 1] == "storage_update_data", "and that write is the last effect of the step")
        check(saves[0].args[0] == em._cursor_tag, "under the cursor tag")
        check(saves[0].args[1] == em.cursor and em.cursor is not None or saves[0].args[1] == em.cursor, "the stored cursor is the one remembered")
    reads = calls("get_current_cursor")
    if not stopped0:
        check(len(reads) >= 1, "a step that ran to its end looks at the provider's position")
        cur = reads[len(reads) - 1].result
        check((len(saves) == 1) == (cur != c0), "the position is persisted exactly when it moved")
        if len(saves) == 1:
            check(saves[0].args[1] == cur, "and what is persisted is the provider's position")
    if stopped0:
        check(len(calls("_process_event")) == 0, "a stopped manager processes no provider event")
        for c in provider_calls():
            if c.method == "events" and len(c.result) > 0:
                check(len(saves) == 0, "a stop while events remain unprocessed does not move the stored cursor")


@lemma(props=["C14", "C07", "C15", "C06"], configs="sides", raises=["Exception"],
       stubs={"cloudsync.event:EventManager._fill_event_path": {"results": ["None"], "raises": False, "havoc": False},
              "cloudsync.event:EventManager._notify_on_root_change_event": {"results": ["None"], "havoc": False}})
def process_event_contract(w: World, from_walk: bool):
    """L14.1 / L6.7 / L7.2: an event without an id is ignored (except a folder deletion matched by path);
    a walk event that changes nothing is ignored; otherwise exactly one state update followed by one commit,
    both while holding the state lock"""
    em = w.event_manager(w.changed)
    ev = w.event("ev")
    had_oid = ev.oid is not None
    dir_delete_by_path = ev.exists is False and truthy(ev.path) and ev.otype == DIRECTORY
    known = w.state.lookup_oid(w.changed, ev.oid) if ev.oid is not None else None
    unchanged = known is not None and known[w.changed].hash == ev.hash and known[w.changed].path == ev.path
    em._process_event(ev, from_walk)
    ups = calls("update")
    commits = calls("storage_commit")
    names = effect_names()
    check(len(provider_writes()) == 0, "event intake never writes to a provider")
    check(len(ups) <= 1 and len(commits) <= 1, "at most one update and one commit")
    if not had_oid and not dir_delete_by_path:
        check(len(ups) == 0 and len(commits) == 0, "an event without an id is ignored")
    if had_oid and not from_walk:
        check(len(ups) == 1, "an ordinary event with an id is always applied -- never dropped for 'nothing changed'")
    if had_oid and from_walk:
        check((len(ups) == 0) == unchanged, "a walk event is dropped exactly when the object is known with the same hash and path")
    if len(ups) == 1:
        check(len(commits) == 1 and names[len(names) - 1] == "storage_commit", "the update is followed by a commit")
        check(ups[0].held >= 1 and commits[0].held >= 1, "both under the state lock")
        check(ups[0].args[0] == w.changed, "the update is for this manager's side")
    check(lock_held() == 0, "the lock is released afterwards")


@lemma(props=["C10", "C06"], configs="sides", raises=["_BackoffError", "Exception"],
       stubs={"cloudsync.event:EventManager._reconnect_if_needed": {"results": ["None"], "havoc": False},
              "cloudsync.event:EventManager._validate_root": {"results": ["True", "False"], "havoc": False},
              "cloudsync.event:EventManager._do_unsafe": {"results": ["None"], "havoc": False},
              "cloudsync.event:EventManager._save_current_cursor": {"results": ["None"], "raises": False, "havoc": False}})
def event_manager_fault_classification(w: World):
    """L10.3 / L6.2: whatever the intake step raises -- temporary / disconnected / namespace errors are reported with this
    side as the source and turned into a back-off; a rejected cursor resets the cursor to the provider's latest, saves
    it and forces a full walk; an expired token sets need_auth; every one of these ends as a back-off request"""
    em = w.event_manager(w.changed)
    na0 = em.need_auth
    nw0 = em.need_walk
    try:
        em.do()
        raised = None
    except BaseException as e:
        raised = e
    notes = calls("notify_from_exception")
    from cloudsync.runnable import _BackoffError
    rc = calls("_reconnect_if_needed")
    check(len(rc) == 1 and effect_names()[0] == "_reconnect_if_needed", "every step first makes sure the provider is connected")
    vr = calls("_validate_root")
    if len(vr) == 1 and vr[0].ok:
        check((len(calls("_do_unsafe")) == 1) == (vr[0].result is True), "events are taken in exactly when the root is validated")
    if isinstance(raised, _BackoffError) and len(calls("_save_current_cursor")) == 0 and not na0 and em.need_auth is False:
        check(len(notes) == 1, "a temporary / disconnected / namespace fault is reported, once")
    if raised is None:
        check(len(notes) == 0, "a clean step reports nothing")
        check(em.need_auth == na0 and em.need_walk == nw0, "and changes no recovery flag")
    elif isinstance(raised, _BackoffError):
        check(len(notes) <= 1, "at most one notification per failed step")
        for n in notes:
            check(n.args[0] == SourceEnum(w.changed), "the notification names this side as its source")
            check(isinstance(n.args[1], (ex.CloudTemporaryError, ex.CloudDisconnectedError, ex.CloudNamespaceError)),
                  "and carries a temporary / disconnected / namespace error")
        if len(calls("_save_current_cursor")) > 0:
            check(em.need_walk is True, "a rejected cursor forces a full walk")


@lemma(props=["C14", "C06", "C07"], configs="update_cases", raises=["AssertionError"],
       inline=["cloudsync.sync.state:SyncState.update"])
def event_update_records_the_event(w: World):
    """L14.4: applying a provider event (no prior id) to the state: an entry already known under the event's id is
    updated in place -- no second entry for the same object; otherwise a new entry is indexed under the id.  Afterwards
    that side carries the event's id, path (in the provider's separator form), hash and existence, is flagged changed
    and is in the pending set; the other side of the entry and both sides' last-synced markers are untouched"""
    state = w.state
    side = w.changed
    other = 1 - side
    ev = w.event("ev")
    assume(ev.oid is not None and len(ev.oid) > 0)
    assume(ev.otype == DIRECTORY or ev.otype == FILE)
    ent0 = state.lookup_oid(side, ev.oid)
    # exhaustive case split (12 cases per side, one generation task each): known object? x existence kind x path given?
    assume((ent0 is not None) == (w.known == 1))
    assume((w.exk == 0 and ev.exists is True) or (w.exk == 1 and ev.exists is False) or (w.exk == 2 and ev.exists is None))
    assume((ev.path is not None) == (w.has_path == 1))
    if ent0 is not None:
        o_oid, o_path, o_hash, o_sh, o_sp, o_ex = ent0[other].oid, ent0[other].path, ent0[other].hash, ent0[other].sync_hash, ent0[other].sync_path, ent0[other].exists
        s_sh, s_sp, s_hash, s_path = ent0[side].sync_hash, ent0[side].sync_path, ent0[side].hash, ent0[side].path
        disc0 = ent0.is_discarded
        s_ex0, s_corrupt0 = ent0[side].exists, ent0[side].is_corrupt
    state.update(side, ev.otype, ev.oid, path=ev.path, hash=ev.hash, exists=ev.exists)
    e = state.lookup_oid(side, ev.oid)
    check(e is not None, "the id is indexed afterwards")
    if ent0 is not None and not (disc0 and w.providers[side].oid_is_path and truthy(ev.path)):
        check(e is ent0, "a known object is updated in place (no second entry)")
        check(e[other].oid == o_oid and e[other].path == o_path and e[other].hash == o_hash and e[other].exists == o_ex,
              "the other side is untouched")
        check(e[other].sync_hash == o_sh and e[other].sync_path == o_sp and e[side].sync_hash == s_sh and e[side].sync_path == s_sp,
              "last-synced markers are untouched")
        if ev.hash is None:
            check(e[side].hash == s_hash, "an event without a hash keeps the recorded hash")
        if ev.path is None:
            check(e[side].path == s_path, "an event without a path keeps the recorded path")
    check(e[side].oid == ev.oid, "the side carries the event's id")
    if ev.path is not None:
        check(e[side].path == w.providers[side].normalize_path_separators(ev.path), "and its path in the provider's separator form")
    if ev.hash is not None:
        check(e[side].hash == ev.hash, "and its hash")
    check(truthy(e[side].changed), "the side is flagged changed")
    check(in_changeset(state, e), "and the entry is in the pending set")
    if ev.exists is True:
        check(e[side].exists in (EXISTS, LIKELY_TRASHED) or e[side].exists == CORRUPT, "an existing object is recorded as existing")
        if ent0 is not None and e is ent0 and not s_corrupt0:
            check(e[side].exists == (LIKELY_TRASHED if s_ex0 == TRASHED else EXISTS),
                  "an object seen again after its deletion was recorded is only 'likely trashed' (guards against late events); otherwise it exists")
    if ev.exists is False:
        check(e[side].exists == TRASHED or (e[side].exists == CORRUPT and e[side]._saved_exists == TRASHED), "a deletion is recorded as a tombstone")


@lemma(props=["C06", "C07", "C14"], configs="sides", raises=["Exception"])
def first_init_restores_or_records_the_cursor(w: World):
    """L6.4: the first intake step after a start: without a stored cursor the provider's current position is adopted and
    persisted under the cursor tag (when it has one); with a stored cursor that position is handed to the provider; if the
    provider rejects it (CloudCursorError) and no completed walk is on record, a full walk is requested before the error
    propagates; nothing of this happens on later steps"""
    em = w.event_manager(w.changed)
    first = em._first_do
    stored = em.cursor
    nw0 = em.need_walk
    try:
        em._do_first_init()
        raised = None
    except BaseException as e:
        raised = e
    if not first:
        check(raised is None and len(calls("storage_update_data")) == 0 and len(calls("set_current_cursor")) == 0
              and em.cursor == stored and em.need_walk == nw0, "not the first step: no cursor is adopted, stored or handed over")
    elif stored is None:
        ups = calls("storage_update_data")
        if raised is None:
            check(em._first_do is False, "the first step is done")
            if em.cursor is not None:
                check(len(ups) == 1 and ups[0].args[0] == em._cursor_tag and ups[0].args[1] == em.cursor,
                      "the adopted position is persisted under the cursor tag")
            else:
                check(len(ups) == 0, "no position: nothing to persist")
    else:
        sets = calls("set_current_cursor")
        check(len(calls("storage_update_data")) == 0, "a stored cursor is not rewritten")
        check(em.cursor == stored, "and stays the one remembered")
        if raised is None:
            check(em._first_do is False, "the first step is done")
        elif isinstance(raised, ex.CloudCursorError):
            gets = calls("storage_get_data")
            check(len(gets) == 1 and gets[0].args[0] == em._walk_tag, "a rejected cursor: the walk record is consulted")
            check(em._first_do is True, "and the first step is not counted as done")
            if gets[0].result is None:
                check(em.need_walk is True, "no completed walk on record: a full walk is requested")
            else:
                check(em.need_walk == nw0, "a completed walk on record: the need is unchanged")


@lemma(props=["C06", "C14", "C07"], configs="sides", raises=["Exception"],
       stubs={"cloudsync.event:EventManager._process_event": {"results": ["None"], "havoc": False}})
def walk_if_needed_records_completion_last(w: World):
    """L6.5: a full walk happens exactly when one is needed and the root id is known; every walked object is processed
    as a walk event; the completion record (walk tag) is written only after the walk, as the last effect, and only then
    is the need cleared; a stop in the middle records nothing (the walk is repeated after a restart)"""
    em = w.event_manager(w.changed)
    need = em.need_walk
    root = em._root_oid
    em._do_walk_if_needed()
    names = effect_names()
    ups = calls("storage_update_data")
    if not (need and truthy(root)):
        check(len(calls("_process_event")) == 0 and len(ups) == 0 and em.need_walk == need, "no walk needed or no root: nothing is walked or recorded")
    else:
        for c in calls("_process_event"):
            check(c.kw_from_walk is True, "walked objects are processed as walk events")
        if len(ups) > 0:
            check(len(ups) == 1 and names[len(names) - 1] == "storage_update_data" and ups[0].args[0] == em._walk_tag,
                  "the completion record is the last effect, under the walk tag")
            check(em.need_walk is False, "and only then the need is cleared")
        else:
            check(em.need_walk == need, "an interrupted walk leaves the need in place")
        for c in provider_calls():
            if c.method == "walk_oid" and c.ok and len(c.result) > 0 and em.stopped:
                check(len(ups) == 0, "a stop while objects remain to be walked records nothing")


@lemma(props=["C06", "C07", "C14"], configs="sides", raises=["Exception"])
def validate_root_loads_cursor_and_walk_need(w: World):
    """L6.6: the stored cursor is read from storage under the tag of this side's root exactly once (when the root is first
    validated) and becomes the position remembered; a full walk is needed exactly when there is no stored cursor or no
    completed-walk record for this root; a half-specified root validates nothing and reads nothing"""
    em = w.event_manager(w.changed)
    validated0 = em._root_validated
    nw0 = em.need_walk
    c0 = em.cursor
    prov = w.providers[w.changed]
    prov_root = truthy(prov.root_path) and truthy(prov.root_oid)
    rp0, ro0 = em._root_path, em._root_oid
    r = em._validate_root()
    gets = calls("storage_get_data")
    if not validated0:
        if prov_root:
            check(em._root_path == prov.root_path and em._root_oid == prov.root_oid, "a root set on the provider is the root watched")
        else:
            check(em._root_path == rp0 and em._root_oid == ro0, "otherwise the configured root stays")
    if validated0:
        check(r is True and len(gets) == 0 and em.cursor == c0 and em.need_walk == nw0, "already validated: nothing is read again")
    elif r:
        check(len(gets) >= 1 and gets[0].args[0] == em._cursor_tag, "the cursor is read under this root's cursor tag")
        check(em.cursor == gets[0].result, "and becomes the position remembered")
        if truthy(em._root_path):
            check(em._walk_tag != em._cursor_tag, "walk record and cursor live under different tags")
            if em.cursor is None:
                check(em.need_walk is True, "no stored cursor: a full walk is needed")
            else:
                check(len(gets) == 2 and gets[1].args[0] == em._walk_tag, "the walk record is read under the walk tag")
                check(em.need_walk == (gets[1].result is None), "a walk is needed exactly when none was completed")
        else:
            check(em.need_walk == nw0, "no root: the walk need is left alone")
    else:
        check(len(gets) == 0 and em.cursor == c0 and em.need_walk == nw0, "a half-specified root reads nothing")


@lemma(props=["C14", "C04", "C06", "C07"], configs="sides", raises=["AssertionError"],
       inline=["cloudsync.sync.state:SyncState.update"])
def rename_event_reuses_the_prior_entry(w: World):
    """L4.5: a rename reported by a path-style provider (event with a prior id) for an object the state knows under the
    prior id, when nothing is known under the new id: the *same* entry carries on under the new id -- no second entry for
    the renamed object -- and its other side (the peer and all last-synced markers) is untouched, so the rename is
    mirrored as a rename and not as delete + create"""
    state = w.state
    side = w.changed
    other = 1 - side
    ev = w.event("ev")
    assume(ev.oid is not None and len(ev.oid) > 0)
    assume(ev.prior_oid is not None and len(ev.prior_oid) > 0 and ev.prior_oid != ev.oid)
    assume(ev.otype == DIRECTORY or ev.otype == FILE)
    prior = state.lookup_oid(side, ev.prior_oid)
    assume(prior is not None and not prior.is_discarded)
    assume(state.lookup_oid(side, ev.oid) is None)
    o_oid, o_path, o_hash, o_sh, o_sp = prior[other].oid, prior[other].path, prior[other].hash, prior[other].sync_hash, prior[other].sync_path
    s_sh, s_sp = prior[side].sync_hash, prior[side].sync_path
    state.update(side, ev.otype, ev.oid, path=ev.path, hash=ev.hash, exists=ev.exists, prior_oid=ev.prior_oid)
    e = state.lookup_oid(side, ev.oid)
    check(e is prior, "the entry known under the prior id carries on under the new id")
    check(prior[side].oid == ev.oid, "it now carries the new id")
    check(prior[other].oid == o_oid and prior[other].path == o_path and prior[other].hash == o_hash, "its peer is untouched")
    check(prior[other].sync_hash == o_sh and prior[other].sync_path == o_sp and prior[side].sync_hash == s_sh and prior[side].sync_path == s_sp,
          "last-synced markers are untouched (the rename is still to be mirrored)")
    check(truthy(prior[side].changed) and in_changeset(state, prior), "and it is pending")


@lemma(props=["C14", "C06", "C07"], configs="sides", raises=["Exception"],
       stubs={"cloudsync.event:EventManager._do_first_init": {"results": ["None"], "raises": False, "havoc": False},
              "cloudsync.event:EventManager._do_walk_if_needed": {"results": ["None"], "raises": False, "havoc": False},
              "cloudsync.event:EventManager._process_event": {"results": ["None"], "raises": False, "havoc": False},
              "cloudsync.event:EventManager._save_current_cursor": {"results": ["None"], "raises": False, "havoc": False}})
def queued_events_are_taken_in_first(w: World, from_walk: bool):
    """L14.6: an event handed in by the application (queue) is processed in the next step, with the walk flag it was
    queued with, before any event of the provider, and the queue is emptied"""
    em = w.event_manager(w.changed)
    q = w.event("queued")
    em._queue = [(q, from_walk)]
    assume(not em.stopped)
    em._do_unsafe()
    pe = calls("_process_event")
    check(len(pe) >= 1 and pe[0].args[0] is q and pe[0].kw_from_walk == from_walk, "the queued event is processed first, with its walk flag")
    check(len(em._queue) == 0, "and the queue is emptied")
    seen_provider = False
    for n in effect_names():
        if n == "read:events":
            seen_provider = True
    check(seen_provider, "provider events are asked for afterwards")
