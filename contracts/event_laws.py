"""C06 / C07 / C14 / C10 / C15: contracts of the event intake (cloudsync/event.py EventManager)."""
from pyvc.dsl import *   # noqa
from cloudsync.types import DIRECTORY, FILE
from cloudsync.sync.state import TRASHED, MISSING, EXISTS, UNKNOWN, LIKELY_TRASHED, CORRUPT
from cloudsync.notification import SourceEnum
import cloudsync.exceptions as ex


@lemma(props=["C06", "C07"], configs="sides", raises=["Exception"],
       stubs={"cloudsync.event:EventManager._do_first_init": {"results": ["None"], "havoc": False},
              "cloudsync.event:EventManager._do_walk_if_needed": {"results": ["None"], "havoc": False},
              "cloudsync.event:EventManager._process_event": {"results": ["None"], "havoc": False}})
def cursor_saved_after_the_events_it_covers(w: World):
    """L6.3 / L7.3: in one event-intake step the cursor is persisted only after every event of the batch was
    processed (each processing ends in a commit), and never when the step was cut short by a stop"""
    em = w.event_manager(w.changed)
    stopped0 = em.stopped
    em._do_unsafe()
    names = effect_names()
    saves = calls("storage_update_data")
    if len(saves) > 0:
        check(len(saves) == 1, "the cursor is written at most once per step")
        check(names[len(names) - 1] == "storage_update_data", "and that write is the last effect of the step")
        check(saves[0].args[0] == em._cursor_tag, "under the cursor tag")
        check(saves[0].args[1] == em.cursor and em.cursor is not None or saves[0].args[1] == em.cursor, "the stored cursor is the one remembered")
    if stopped0:
        check(len(calls("_process_event")) == 0, "a stopped manager processes no provider event")


@lemma(props=["C14", "C07", "C15", "C06"], configs="sides", raises=["Exception"],
       stubs={"cloudsync.event:EventManager._fill_event_path": {"results": ["None"], "raises": False, "havoc": False},
              "cloudsync.event:EventManager._notify_on_root_change_event": {"results": ["None"], "havoc": False}})
def process_event_contract(w: World, from_walk: bool):
    """L14.1 / L6.7 / L7.2: an event without an id is ignored (except a folder deletion matched by path);
    a walk event that changes nothing is ignored; otherwise exactly one state update followed by one commit,
    both while holding the state lock"""
    em = w.event_manager(w.changed)
    ev = w.event("ev")
    had_oid = ev.oid is not None
    dir_delete_by_path = ev.exists is False and truthy(ev.path) and ev.otype == DIRECTORY
    em._process_event(ev, from_walk)
    ups = calls("update")
    commits = calls("storage_commit")
    names = effect_names()
    check(len(provider_writes()) == 0, "event intake never writes to a provider")
    check(len(ups) <= 1 and len(commits) <= 1, "at most one update and one commit")
    if not had_oid and not dir_delete_by_path:
        check(len(ups) == 0 and len(commits) == 0, "an event without an id is ignored")
    if len(ups) == 1:
        check(len(commits) == 1 and names[len(names) - 1] == "storage_commit", "the update is followed by a commit")
        check(ups[0].held >= 1 and commits[0].held >= 1, "both under the state lock")
        check(ups[0].args[0] == w.changed, "the update is for this manager's side")
    check(lock_held() == 0, "the lock is released afterwards")


@lemma(props=["C10", "C06"], configs="sides", raises=["_BackoffError", "Exception"],
       stubs={"cloudsync.event:EventManager._reconnect_if_needed": {"results": ["None"], "havoc": False},
              "cloudsync.event:EventManager._validate_root": {"results": ["True", "False"], "havoc": False},
              "cloudsync.event:EventManager._do_unsafe": {"results": ["None"], "havoc": False},
              "cloudsync.event:EventManager._save_current_cursor": {"results": ["None"], "raises": False, "havoc": False}})
def event_manager_fault_classification(w: World):
    """L10.3 / L6.2: whatever the intake step raises -- temporary / disconnected / namespace errors are reported with this
    side as the source and turned into a back-off; a rejected cursor resets the cursor to the provider's latest, saves
    it and forces a full walk; an expired token sets need_auth; every one of these ends as a back-off request"""
    em = w.event_manager(w.changed)
    na0 = em.need_auth
    nw0 = em.need_walk
    try:
        em.do()
        raised = None
    except BaseException as e:
        raised = e
    notes = calls("notify_from_exception")
    from cloudsync.runnable import _BackoffError
    if raised is None:
        check(len(notes) == 0, "a clean step reports nothing")
        check(em.need_auth == na0 and em.need_walk == nw0, "and changes no recovery flag")
    elif isinstance(raised, _BackoffError):
        check(len(notes) <= 1, "at most one notification per failed step")
        for n in notes:
            check(n.args[0] == SourceEnum(w.changed), "the notification names this side as its source")
            check(isinstance(n.args[1], (ex.CloudTemporaryError, ex.CloudDisconnectedError, ex.CloudNamespaceError)),
                  "and carries a temporary / disconnected / namespace error")
        if len(calls("_save_current_cursor")) > 0:
            check(em.need_walk is True, "a rejected cursor forces a full walk")


@lemma(props=["C14"], configs="update_cases", raises=["AssertionError"],
       inline=["cloudsync.sync.state:SyncState.update"])
def event_update_records_the_event(w: World):
    """L14.4: applying a provider event (no prior id) to the state: an entry already known under the event's id is
    updated in place -- no second entry for the same object; otherwise a new entry is indexed under the id.  Afterwards
    that side carries the event's id, path (in the provider's separator form), hash and existence, is flagged changed
    and is in the pending set; the other side of the entry and both sides' last-synced markers are untouched"""
    state = w.state
    side = w.changed
    other = 1 - side
    ev = w.event("ev")
    assume(ev.oid is not None and len(ev.oid) > 0)
    assume(ev.otype == DIRECTORY or ev.otype == FILE)
    ent0 = state.lookup_oid(side, ev.oid)
    # exhaustive case split (12 cases per side, one generation task each): known object? x existence kind x path given?
    assume((ent0 is not None) == (w.known == 1))
    assume((w.exk == 0 and ev.exists is True) or (w.exk == 1 and ev.exists is False) or (w.exk == 2 and ev.exists is None))
    assume((ev.path is not None) == (w.has_path == 1))
    if ent0 is not None:
        o_oid, o_path, o_hash, o_sh, o_sp, o_ex = ent0[other].oid, ent0[other].path, ent0[other].hash, ent0[other].sync_hash, ent0[other].sync_path, ent0[other].exists
        s_sh, s_sp, s_hash, s_path = ent0[side].sync_hash, ent0[side].sync_path, ent0[side].hash, ent0[side].path
        disc0 = ent0.is_discarded
    state.update(side, ev.otype, ev.oid, path=ev.path, hash=ev.hash, exists=ev.exists)
    e = state.lookup_oid(side, ev.oid)
    check(e is not None, "the id is indexed afterwards")
    if ent0 is not None and not (disc0 and w.providers[side].oid_is_path and truthy(ev.path)):
        check(e is ent0, "a known object is updated in place (no second entry)")
        check(e[other].oid == o_oid and e[other].path == o_path and e[other].hash == o_hash and e[other].exists == o_ex,
              "the other side is untouched")
        check(e[other].sync_hash == o_sh and e[other].sync_path == o_sp and e[side].sync_hash == s_sh and e[side].sync_path == s_sp,
              "last-synced markers are untouched")
        if ev.hash is None:
            check(e[side].hash == s_hash, "an event without a hash keeps the recorded hash")
        if ev.path is None:
            check(e[side].path == s_path, "an event without a path keeps the recorded path")
    check(e[side].oid == ev.oid, "the side carries the event's id")
    if ev.path is not None:
        check(e[side].path == w.providers[side].normalize_path_separators(ev.path), "and its path in the provider's separator form")
    if ev.hash is not None:
        check(e[side].hash == ev.hash, "and its hash")
    check(truthy(e[side].changed), "the side is flagged changed")
    check(in_changeset(state, e), "and the entry is in the pending set")
    if ev.exists is True:
        check(e[side].exists in (EXISTS, LIKELY_TRASHED) or e[side].exists == CORRUPT, "an existing object is recorded as existing")
    if ev.exists is False:
        check(e[side].exists == TRASHED or (e[side].exists == CORRUPT and e[side]._saved_exists == TRASHED), "a deletion is recorded as a tombstone")
