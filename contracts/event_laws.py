"""C06 / C07 / C14 / C10 / C15: contracts of the event intake (cloudsync/event.py EventManager)."""
from pyvc.dsl import *   # noqa
from cloudsync.types import DIRECTORY, FILE
from cloudsync.notification import SourceEnum
import cloudsync.exceptions as ex


@lemma(props=["C06", "C07"], configs="sides", raises=["Exception"],
       stubs={"cloudsync.event:EventManager._do_first_init": {"results": ["None"], "havoc": False},
              "cloudsync.event:EventManager._do_walk_if_needed": {"results": ["None"], "havoc": False},
              "cloudsync.event:EventManager._process_event": {"results": ["None"], "havoc": False}})
def cursor_saved_after_the_events_it_covers(w: World):
    """L6.3 / L7.3: in one event-intake step the cursor is persisted only after every event of the batch was
    processed (each processing ends in a commit), and never when the step was cut short by a stop"""
    em = w.event_manager(w.changed)
    stopped0 = em.stopped
    em._do_unsafe()
    names = effect_names()
    saves = calls("storage_update_data")
    if len(saves) > 0:
        check(len(saves) == 1, "the cursor is written at most once per step")
        check(names[len(names) - 1] == "storage_update_data", "and that write is the last effect of the step")
        check(saves[0].args[0] == em._cursor_tag, "under the cursor tag")
        check(saves[0].args[1] == em.cursor and em.cursor is not None or saves[0].args[1] == em.cursor, "the stored cursor is the one remembered")
    if stopped0:
        check(len(calls("_process_event")) == 0, "a stopped manager processes no provider event")


@lemma(props=["C14", "C07", "C15", "C06"], configs="sides", raises=["Exception"],
       stubs={"cloudsync.event:EventManager._fill_event_path": {"results": ["None"], "raises": False, "havoc": False},
              "cloudsync.event:EventManager._notify_on_root_change_event": {"results": ["None"], "havoc": False}})
def process_event_contract(w: World, from_walk: bool):
    """L14.1 / L6.7 / L7.2: an event without an id is ignored (except a folder deletion matched by path);
    a walk event that changes nothing is ignored; otherwise exactly one state update followed by one commit,
    both while holding the state lock"""
    em = w.event_manager(w.changed)
    ev = w.event("ev")
    had_oid = ev.oid is not None
    dir_delete_by_path = ev.exists is False and truthy(ev.path) and ev.otype == DIRECTORY
    em._process_event(ev, from_walk)
    ups = calls("update")
    commits = calls("storage_commit")
    names = effect_names()
    check(len(provider_writes()) == 0, "event intake never writes to a provider")
    check(len(ups) <= 1 and len(commits) <= 1, "at most one update and one commit")
    if not had_oid and not dir_delete_by_path:
        check(len(ups) == 0 and len(commits) == 0, "an event without an id is ignored")
    if len(ups) == 1:
        check(len(commits) == 1 and names[len(names) - 1] == "storage_commit", "the update is followed by a commit")
        check(ups[0].held >= 1 and commits[0].held >= 1, "both under the state lock")
        check(ups[0].args[0] == w.changed, "the update is for this manager's side")
    check(lock_held() == 0, "the lock is released afterwards")


@lemma(props=["C10", "C06"], configs="sides", raises=["_BackoffError", "Exception"],
       stubs={"cloudsync.event:EventManager._reconnect_if_needed": {"results": ["None"], "havoc": False},
              "cloudsync.event:EventManager._validate_root": {"results": ["True", "False"], "havoc": False},
              "cloudsync.event:EventManager._do_unsafe": {"results": ["None"], "havoc": False},
              "cloudsync.event:EventManager._save_current_cursor": {"results": ["None"], "raises": False, "havoc": False}})
def event_manager_fault_classification(w: World):
    """L10.3 / L6.2: whatever the intake step raises -- temporary / disconnected / namespace errors are reported with this
    side as the source and turned into a back-off; a rejected cursor resets the cursor to the provider's latest, saves
    it and forces a full walk; an expired token sets need_auth; every one of these ends as a back-off request"""
    em = w.event_manager(w.changed)
    na0 = em.need_auth
    nw0 = em.need_walk
    try:
        em.do()
        raised = None
    except BaseException as e:
        raised = e
    notes = calls("notify_from_exception")
    from cloudsync.runnable import _BackoffError
    if raised is None:
        check(len(notes) == 0, "a clean step reports nothing")
        check(em.need_auth == na0 and em.need_walk == nw0, "and changes no recovery flag")
    elif isinstance(raised, _BackoffError):
        check(len(notes) <= 1, "at most one notification per failed step")
        for n in notes:
            check(n.args[0] == SourceEnum(w.changed), "the notification names this side as its source")
            check(isinstance(n.args[1], (ex.CloudTemporaryError, ex.CloudDisconnectedError, ex.CloudNamespaceError)),
                  "and carries a temporary / disconnected / namespace error")
        if len(calls("_save_current_cursor")) > 0:
            check(em.need_walk is True, "a rejected cursor forces a full walk")
