"""C09: the SQLite storage back end behaves as a tag-isolated map (tag, id) -> bytes.

The table is an open map: `other_id` is an arbitrary *other* row; every lemma checks it is untouched
(the frame), so nothing else in the table changes whatever it contains.
"""
from pyvc.dsl import *   # noqa


@lemma(props=["C09", "C06"], configs="none")
def sqlite_create(s: Sqlite, tag: str, other_id: int):
    b = some_bytes("b")
    before = db_row(s, other_id)
    i = s.create(tag, b)
    check(i is not None and i != other_id or before is None, "create returns an id no live row is using (whatever its tag)")
    row = db_row(s, i)
    check(row is not None and row[0] == tag and row[1] == b, "the new row holds exactly the tag and the bytes written")
    check(i == other_id or db_row(s, other_id) == before, "no other row changes")


@lemma(props=["C09", "C06"], configs="none", raises=["ValueError"])
def sqlite_update(s: Sqlite, tag: str, eid: int, other_id: int):
    b = some_bytes("b")
    before = db_row(s, eid)
    obefore = db_row(s, other_id)
    try:
        n = s.update(tag, b, eid)
        raised = False
    except ValueError:
        raised = True
    live = before is not None and before[0] == tag
    check(iff(raised, not live), "updating a row that is missing (or belongs to another tag) is an error, otherwise not")
    after = db_row(s, eid)
    if live:
        check(after is not None and after[0] == tag and after[1] == b, "the row now holds the new bytes")
    else:
        check(after == before, "a failed update changes nothing")
    check(eid == other_id or db_row(s, other_id) == obefore, "no other row changes")


@lemma(props=["C09"], configs="none")
def sqlite_delete(s: Sqlite, tag: str, eid: int, other_id: int):
    before = db_row(s, eid)
    obefore = db_row(s, other_id)
    s.delete(tag, eid)
    after = db_row(s, eid)
    if before is not None and before[0] == tag:
        check(after is None, "the row is gone")
    else:
        check(after == before, "a row of another tag with the same id is not deleted; deleting a missing row is a no-op")
    check(eid == other_id or db_row(s, other_id) == obefore, "no other row changes")
    s.delete(tag, eid)
    check(db_row(s, eid) == after, "delete is idempotent")


@lemma(props=["C09", "C06"], configs="none")
def sqlite_read(s: Sqlite, tag: str, eid: int, other_id: int):
    before = db_row(s, eid)
    obefore = db_row(s, other_id)
    r = s.read(tag, eid)
    if before is not None and before[0] == tag:
        check(r == before[1], "read returns exactly the bytes last written for that tag and id")
    else:
        check(r is None, "read returns nothing for a missing row or a row of another tag")
    check(db_row(s, eid) == before and db_row(s, other_id) == obefore, "read changes nothing")
