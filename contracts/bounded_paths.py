"""C13 bounded stand-in (labelled bounded, never counted as proved) for the part of the path algebra that the
deductive lemmas cannot reach: the *body* of Provider.normalize_path (re.split + join over a list of unknown length;
an opaque deterministic function in contracts/path_laws.py) and the equivalence form of "split then join".

Exhaustive over all strings up to a stated length over a small alphabet (separator, alternate separator, letters of
both cases, dot, space, colon, one non-ASCII letter) for each provider path convention; run on the real code."""
import itertools
import sys

ALPHABET = ["/", "\\", "a", "A", "b", ".", " ", ":", "é"]
# second enumeration: paths as sequences of *tokens*, so that doubled separators in the interior of a longer path occur
TOKENS = ["/", "//", "\\", "a", "A", "b."]


def _laws(p, x, out):
    """appends (law, detail) for every law `x` violates on provider p"""
    n = p.normalize_path(x)
    nd = p.normalize_path(x, True)
    if p.normalize_path(n) != n:
        out.append(("normalising is idempotent", "normalize_path(%r) = %r, again = %r" % (x, n, p.normalize_path(n))))
    if p.normalize_path(nd, True) != nd:
        out.append(("normalising for display is idempotent", "normalize_path(%r, True) = %r, again = %r" % (x, nd, p.normalize_path(nd, True))))
    if p.case_sensitive:
        if nd != n:
            out.append(("case-sensitive: the display form is the plain form", "%r: %r vs %r" % (x, nd, n)))
    else:
        if nd.lower() != n:
            out.append(("case-insensitive: the display form differs from the plain form only in letter case", "%r: %r vs %r" % (x, nd, n)))
        if p.basename(nd) != p.basename(p.normalize_path_separators(p.join(x))) and p.basename(nd).lower() != p.basename(n):
            out.append(("the display form keeps the leaf", "%r: %r" % (x, nd)))
        if p.dirname(nd) != p.dirname(nd).lower():
            out.append(("the display form folds the case of everything but the leaf", "%r: %r" % (x, nd)))
    for d in (False, True):
        if not p.paths_match(x, x, d):
            out.append(("path equality is reflexive", "%r for_display=%s" % (x, d)))
        if not p.paths_match(x, nd if d else n, d):
            out.append(("a path equals its normal form", "%r vs %r for_display=%s" % (x, nd if d else n, d)))
    nps = p.normalize_path_separators(x)
    if nps.startswith(p.sep):
        h, t = p.split(x)
        j = p.join(h, t)
        if not p.paths_match(j, x):
            out.append(("split then join gives back an equivalent path", "%r -> (%r, %r) -> %r" % (x, h, t, j)))


def replay(rp):
    """re-evaluates the recorded law on the recorded path against the real code; True = the law holds (not reproduced)"""
    import os
    repo = os.environ.get("VERIF_REPO", "/repo")
    if repo not in sys.path:
        sys.path.insert(0, repo)
    from pyvc import fixtures as F
    from pyvc.fixtures_concrete import provider_class
    cfg = [c for c in F.PROVIDER_CONFIGS if c["name"] == rp["config"]][0]
    out = []
    try:
        _laws(provider_class(cfg)(), rp["path"], out)
    except Exception as e:
        out.append(("no exception", str(e)))
    bad = [d for law, d in out if law == rp["law"]]
    for d in bad:
        print("law %r fails: %s" % (rp["law"], d))
    return not bad


def _one_config(args):
    repo, cfg, maxlen, ntok = args
    if repo not in sys.path:
        sys.path.insert(0, repo)
    from pyvc.fixtures_concrete import provider_class
    import logging
    logging.disable(logging.CRITICAL)
    p = provider_class(cfg)()
    failures, samples, seen = [], [], set()
    evaluations = 0
    strings = itertools.chain(
        (("".join(t), len(t)) for n in range(0, maxlen + 1) for t in itertools.product(ALPHABET, repeat=n)),
        (("".join(t), 0) for n in range(maxlen, ntok + 1) for t in itertools.product(TOKENS, repeat=n)))
    for x, n in strings:
        evaluations += 1
        out = []
        try:
            _laws(p, x, out)
        except Exception as e:            # the helpers are total on strings
            out.append(("no exception", "%s: %s on %r" % (type(e).__name__, str(e)[:80], x)))
        for law, detail in out:
            key = (cfg["name"], law)
            if key in seen:
                continue
            seen.add(key)
            failures.append({"what": "%s: %s: %s" % (cfg["name"], law, detail),
                             "witness": {"config": cfg["name"], "path": x, "law": law, "detail": detail},
                             "replay_data": {"config": cfg["name"], "path": x, "law": law,
                                             "replay_module": "contracts.bounded_paths.replay"}})
        if len(samples) < 1 and n == 3:
            samples.append({"config": cfg["name"], "path": x})
    return evaluations, failures, samples


def run(repo, tier, seed):
    if repo not in sys.path:
        sys.path.insert(0, repo)
    from pyvc import fixtures as F
    import multiprocessing
    maxlen = 5      # thorough widens the conventions (all 12) and the token sequences (7), not the raw length
    ntok = 6 if tier == "quick" else 7
    cfgs = [F.PROVIDER_CONFIGS[i] for i in F.QUICK_PROVIDER_CONFIGS] if tier == "quick" else F.PROVIDER_CONFIGS
    ctx = multiprocessing.get_context("fork")
    with ctx.Pool(min(len(cfgs), 12)) as pool:
        parts = pool.map(_one_config, [(repo, c, maxlen, ntok) for c in cfgs])
    evaluations = sum(p_[0] for p_ in parts)
    failures = [f for p_ in parts for f in p_[1]]
    samples = [s_ for p_ in parts for s_ in p_[2]][:3]
    return {"name": "normalize_path_body_and_split_join_equivalence",
            "bound": "every string of length <= %d over %d characters (%s) and every sequence of %d..%d tokens from (%s), for %d provider path conventions"
                     % (maxlen, len(ALPHABET), " ".join(repr(c) for c in ALPHABET), maxlen, ntok, " ".join(repr(c) for c in TOKENS), len(cfgs)),
            "evaluations": evaluations, "distinct_nontrivial": evaluations, "exhaustive": True,
            "rule": "normalize_path idempotent (plain and for_display); display form = plain form (case-sensitive) or differs only in "
                    "letter case with everything but the leaf folded (case-insensitive); paths_match reflexive, a path equals its "
                    "normal form (its display form when asked for display); paths_match(join(*split(x)), x) for absolute x",
            "samples": samples, "failures": failures}
